//go:build verif

package lua

type nullH struct{}

func (nullH) registryOverflow() { panic("registry overflow") }

// C02.regmove — registry.CopyRange moves exactly n values and pads with nil (one step from an arbitrary registry).
//
//verif:harness prop=C02 tier=quick bounds="registry of 6 slots, top/regv/start/n/limit symbolic within the callers' contract (regv<=start, regv+n<=6), values distinct markers"
func H_C02_copyrange() {
	const N = 6
	rg := newRegistry(nullH{}, N, 0, N, nil)
	top := VConc(int(VByte("top")))
	VAssume(top <= N)
	for i := 0; i < top; i++ {
		rg.array[i] = LNumber(10 + i)
	}
	rg.top = top
	regv, start, n := int(VByte("regv")), int(VByte("start")), int(VByte("n"))
	VAssume(VAnd(regv+n <= N, VAnd(start <= N, regv <= start)))
	limit := -1
	if VChoice(2) == 1 {
		limit = int(VByte("limit"))
		VAssume(limit <= top)
	}
	rg.CopyRange(regv, start, limit, n)
	regv, n, start = VConc(regv), VConc(n), VConc(start)
	if limit == -1 {
		limit = top
	}
	limit = VConc(limit)
	VAssert(rg.top == regv+n, "copyrange: top is regv+n")
	for i := 0; i < N; i++ {
		switch {
		case i < regv:
			if i < top {
				VAssert(rg.array[i] == LNumber(10+i), "copyrange: slots below the destination untouched")
			}
		case i < regv+n:
			src := start + (i - regv)
			if src < limit {
				VAssert(rg.array[i] == LNumber(10+src), "copyrange: moved value")
			} else {
				VAssert(rg.array[i] == LNil, "copyrange: padded with nil")
			}
		default:
			if i < top {
				VAssert(rg.array[i] == nil, "copyrange: slots above the new top are cleared")
			}
		}
	}
	VReach("end")
}

// C02.ctx — a call in every result context delivers exactly the prescribed number of values.
//
//verif:harness prop=C02 tier=quick bounds="callee returning 0..3 values x 7 result contexts x Lua/Go callee; 3 symbolic float64 result values"
func H_C02_results() {
	L := newL(Options{}, BaseLibName)
	v := [3]float64{VFloat("r1"), VFloat("r2"), VFloat("r3")}
	for i := range v {
		L.G.Global.RawSetString(string(rune('p'+i)), LNumber(v[i]))
	}
	nres := VChoice(4)
	goCallee := VChoice(2) == 1
	if goCallee {
		L.G.Global.RawSetString("f", L.NewFunction(func(L *LState) int {
			for i := 0; i < nres; i++ {
				L.Push(LNumber(v[i]))
			}
			return nres
		}))
	} else {
		body := []string{"return", "return p", "return p, q", "return p, q, r"}[nres]
		if err := L.DoString("function f() " + body + " end"); err != nil {
			VAssert(false, "results: defining f")
		}
	}
	type ctx struct {
		src  string
		nret int
		want func(i int) (isnil bool, val int) // expected i-th result: nil or index into v (-1: literal 7)
	}
	pick := func(i int) (bool, int) { // i-th value of f() or nil
		if i < nres {
			return false, i
		}
		return true, 0
	}
	ctxs := []ctx{
		{"return f()", -1, pick},                              // all results (tail call)
		{"return (f())", 1, func(i int) (bool, int) { return pick(0) }}, // parenthesised: exactly one
		{"local a, b = f(); return a, b", 2, pick},            // multiple assignment: padded/truncated
		{"local a, b = f(), 7; return a, b", 2, func(i int) (bool, int) {
			if i == 0 {
				return pick(0)
			}
			return false, -1
		}}, // middle position: exactly one
		{"local t = {f()}; return t[1], t[2], t[3], #t", 4, nil}, // constructor last: all
		{"local function g(...) return select('#', ...), ... end; return g(f())", -1, nil},
		{"local t = {f(), 7}; return t[1], t[2], t[3]", 3, func(i int) (bool, int) {
			switch i {
			case 0:
				return pick(0)
			case 1:
				return false, -1
			}
			return true, 0
		}},
	}
	k := VChoice(len(ctxs))
	c := ctxs[k]
	base := L.GetTop()
	err := loadRun(L, c.src, c.nret)
	VAssert(err == nil, "results: runs: "+c.src)
	got := L.GetTop() - base
	check := func(idx int, isnil bool, vi int, label string) {
		g := L.Get(base + 1 + idx)
		switch {
		case isnil:
			VAssert(g == LNil, label)
		case vi == -1:
			VAssert(g == LNumber(7), label)
		default:
			VAssert(sameValue(g, LNumber(v[vi])), label)
		}
	}
	switch k {
	case 0:
		VAssert(got == nres, "results: `return f()` returns all results")
		for i := 0; i < nres; i++ {
			check(i, false, i, "results: `return f()` value")
		}
	case 4:
		for i := 0; i < 3; i++ {
			isnil, vi := pick(i)
			check(i, isnil, vi, "results: constructor `{f()}` holds all results")
		}
		VAssert(L.Get(base+4) == LNumber(nres), "results: `#{f()}` is the result count")
	case 5:
		VAssert(got == nres+1, "results: `g(f())` passes all results")
		VAssert(L.Get(base+1) == LNumber(nres), "results: select('#') counts the arguments")
		for i := 0; i < nres; i++ {
			check(i+1, false, i, "results: `g(f())` argument value")
		}
	default:
		VAssert(got == c.nret, "results: result count")
		for i := 0; i < c.nret; i++ {
			isnil, vi := c.want(i)
			check(i, isnil, vi, "results: `"+c.src+"`")
		}
	}
	VReach("end")
}
