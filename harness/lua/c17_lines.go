//go:build verif

package lua

// ---- C17: reported lines as a function of token positions ----

// symGap returns n symbolic bytes, each one of blank, tab, LF, CR.
func symGap(name string, n int) []byte {
	g := make([]byte, n)
	for i := range g {
		g[i] = VByte(name)
		c := g[i]
		VAssume(VOr(VOr(c == ' ', c == '\t'), VOr(c == '\n', c == '\r')))
	}
	return g
}

// lineBreaks counts line ends as llex.c inclinenumber: LF, CR, CRLF and LFCR are one break each.
func lineBreaks(src []byte) int {
	n := 0
	for i := 0; i < len(src); i++ {
		c := src[i]
		if c == '\n' || c == '\r' {
			n++
			if i+1 < len(src) && (src[i+1] == '\n' || src[i+1] == '\r') && src[i+1] != c {
				i++
			}
		}
	}
	return n
}

// errLine extracts N from a message that starts with the position prefix "chunk:N: " (chunk: the name the chunk
// was loaded under, without blanks or colons); -1 when the message does not start with such a prefix.
func errLine(msg string) int {
	i := 0
	for i < len(msg) && msg[i] != ':' && msg[i] != ' ' {
		i++
	}
	if i == 0 || i >= len(msg) || msg[i] != ':' {
		return -1
	}
	n := 0
	j := i + 1
	for j < len(msg) && msg[j] >= '0' && msg[j] <= '9' {
		n = n*10 + int(msg[j]-'0')
		j++
	}
	if j == i+1 || j >= len(msg) || msg[j] != ':' {
		return -1
	}
	return n
}

type c17tmpl struct {
	parts []string // parts[0] G0 parts[1] G1 parts[2] ...
	// statement whose line is reported spans from the start of parts[from] to the end of parts[to]
	from, to int
	want     string // "error" (line from the error message) or "value" (chunk returns the line)
}

var c17Templates = []c17tmpl{
	{[]string{"local x = nil", "local y = x", "+ 1"}, 1, 2, "error"},                                           // arithmetic on nil
	{[]string{"local t = nil", "local v = t", ".k"}, 1, 2, "error"},                                             // index nil
	{[]string{"local f = nil", "f(", ")"}, 1, 2, "error"},                                                       // call nil
	{[]string{"local function f()", "error('m')", "end f()"}, 1, 1, "error"},                                    // error level 1
	{[]string{"local function f() error('m', 2) end", "f(", ")"}, 1, 2, "error"},                                // error level 2: the calling statement
	{[]string{"local a = 1", "return debug.getinfo(1, 'l').currentline", ""}, 1, 1, "value"},                    // currentline
	{[]string{"local s = 'a'", "local y = s ..", "{}"}, 1, 2, "error"},                                          // concat
	{[]string{"local a, b = 1, {}", "if a <", "b then end"}, 1, 2, "error"},                                     // compare
	// the first instruction after an and/or value statement (its trailing jump slot is reused)
	{[]string{"local t; local n = t or 1", "local b = t", ".x"}, 1, 2, "error"},
	{[]string{"local function f(t, n) n = n or 1", "return t + n", "end f()"}, 1, 1, "error"},
	{[]string{"local t, u; u = t and t.k", "u", "()"}, 1, 2, "error"},
	// numeric for: a non-number initial value or step is reported at the header, not inside the body
	{[]string{"local s = {}", "for i = s, 2 do", "local a = 1 end"}, 1, 1, "error"},
	{[]string{"local s = {}", "for i = 1, 2, s do", "local a = 1; local b = 2 end"}, 1, 1, "error"},
	// stores, method calls, length and negation
	{[]string{"local a = {}", "a.b", ".c = 1"}, 1, 2, "error"},
	{[]string{"local o", "o:m(", ")"}, 1, 2, "error"},
	{[]string{"local t", "local n = #", "t"}, 1, 2, "error"},
	{[]string{"local t = {}", "local n = -", "t"}, 1, 2, "error"},
	// errors raised by a host function that was called by another host function: the position is that of the
	// Lua statement that started the chain
	{[]string{"local a = 1", "local ok, e = pcall(error, 'boom') error(e,", "0)"}, 1, 2, "error"},
	{[]string{"local a = 1", "local ok, e = pcall(string.rep) error(e,", "0)"}, 1, 2, "error"},
	{[]string{"local function f() error('lvl2', 2) end", "local ok, e = pcall(pcall, f) local ok2, e2 = pcall(f) error(e2,", "0)"}, 1, 2, "error"},
	// currentline inside a nested function called from a later line
	{[]string{"local function f() return debug.getinfo(2, 'l').currentline end", "return (f(", "))"}, 1, 2, "value"},
}

//verif:harness prop=C17 tier=quick qparams=glen:2 tparams=glen:3 bounds="21 templates, 2 gaps of glen symbolic bytes (2 quick / 3 thorough) each drawn from {blank, tab, LF, CR}: every line layout incl. CRLF/LFCR pairs"
func H_C17_lines() {
	t := c17Templates[VChoice(len(c17Templates))]
	glen := VParam("glen", 2)
	g0, g1 := symGap("g0", glen), symGap("g1", glen)
	var src []byte
	src = append(src, t.parts[0]...)
	src = append(src, ' ')
	src = append(src, g0...)
	pos1 := len(src)
	src = append(src, t.parts[1]...)
	src = append(src, ' ')
	src = append(src, g1...)
	src = append(src, t.parts[2]...)
	L := newL(Options{}, BaseLibName, DebugLibName)
	fn, err := L.Load(&symReader{buf: src}, "c")
	VAssert(err == nil, "lines: template loads under every layout: "+t.parts[1])
	L.Push(fn)
	err = L.PCall(0, 1, nil)
	first := 1 + lineBreaks(src[:pos1])
	last := first
	if t.to == 2 {
		last = 1 + lineBreaks(src[:len(src)-len(t.parts[2])])
	}
	var got int
	if t.want == "error" {
		VAssert(err != nil, "lines: template fails as intended: "+t.parts[1])
		// the error value itself (err.Error() appends a stack traceback, which names lines of its own)
		msg := err.Error()
		if ae, ok := err.(*ApiError); ok && ae.Object != nil {
			msg = ae.Object.String()
		}
		got = errLine(msg)
	} else {
		VAssert(err == nil, "lines: template runs: "+t.parts[1])
		n, _ := L.Get(-1).(LNumber)
		got = int(n)
	}
	VAssert(got >= first && got <= last, "lines: reported line lies within the statement: "+t.parts[1])
	VReach("end")
}

// C17.getlocal — debug.getlocal enumerates exactly the named variables in scope, in declaration
// order, with their current values; setlocal changes exactly that variable.
//
//verif:harness prop=C17 tier=quick bounds="5 query points (block scopes, vararg function entered with extra arguments), index n in 1..5, 2 symbolic float64 values"
func H_C17_getlocal() {
	L := newL(Options{}, BaseLibName, DebugLibName)
	x, y := VFloat("x"), VFloat("y")
	L.G.Global.RawSetString("x", LNumber(x))
	L.G.Global.RawSetString("y", LNumber(y))
	n := 1 + VChoice(5)
	L.G.Global.RawSetString("n", LNumber(n))
	point := VChoice(5)
	src := []string{
		// inside the block: a, b, c in scope
		`local a = x; local b = 2; do local c = y; return debug.getlocal(1, n) end`,
		// after the block: only a, b
		`local a = x; local b = 2; do local c = y end; return debug.getlocal(1, n)`,
		// setlocal changes exactly the chosen variable
		`local a = x; local b = 2; local c = y; debug.setlocal(1, n, 7); return a, b, c`,
		// the same inside a vararg function entered with extra arguments
		`local function f(a, b, ...) local c = y; debug.setlocal(1, n, 7); return a, b, c end; return f(x, 2, 8, 9)`,
		`local function f(a, b, ...) local c = y; return debug.getlocal(1, n) end; return f(x, 2, 8, 9)`,
	}[point]
	err := loadRun(L, src, 3)
	VAssert(err == nil, "getlocal: runs")
	names := []string{"a", "b", "c"}
	vals := []LValue{LNumber(x), LNumber(2), LNumber(y)}
	switch point {
	case 0, 1:
		inScope := 3
		if point == 1 {
			inScope = 2
		}
		if n <= inScope {
			VAssert(L.Get(1) == LString(names[n-1]), "getlocal: name of the n-th local in declaration order")
			VAssert(sameValue(L.Get(2), vals[n-1]), "getlocal: current value of the n-th local")
		} else {
			nm, isStr := L.Get(1).(LString)
			VAssert(L.Get(1) == LNil || (isStr && len(nm) > 0 && nm[0] == '('), "getlocal: beyond the locals in scope there is nothing (or a temporary)")
		}
	case 4:
		// a, b, (arg,) c: the compat `arg` local sits between the parameters and c
		if n <= 2 {
			VAssert(L.Get(1) == LString(names[n-1]) && sameValue(L.Get(2), vals[n-1]), "getlocal: parameters of a vararg function called with extra arguments")
		}
	case 2, 3:
		if point == 3 && n >= 3 {
			break // index 3 is the hidden arg table in a vararg function
		}
		for i := 0; i < 3; i++ {
			if i == n-1 {
				VAssert(L.Get(i+1) == LNumber(7), "setlocal: the chosen variable is changed")
			} else {
				VAssert(sameValue(L.Get(i+1), vals[i]), "setlocal: every other variable is unchanged")
			}
		}
	}
	VReach("end")
}

// C17.scopes — debug.getlocal against a hand-derived scope table: sequential and nested blocks, shadowing,
// local functions.  Each entry lists the variables in scope at the query point, in declaration order; the
// value "x"/"y" stands for the symbolic inputs, "f" for any function, other values are literal numbers.
type c17scope struct {
	src   string
	names []string
	vals  []string
}

var c17Scopes = []c17scope{
	{`local a = x; do local p = 1; local q = 2 end; do local r = y; local s = 4; return debug.getlocal(1, n) end`, []string{"a", "r", "s"}, []string{"x", "y", "4"}},
	{`local a = x; do local p = 1 end; local b = y; do local q = 3; do local r = 4 end; local s = 5; return debug.getlocal(1, n) end`, []string{"a", "b", "q", "s"}, []string{"x", "y", "3", "5"}},
	{`local a = x; local a = y; return debug.getlocal(1, n)`, []string{"a", "a"}, []string{"x", "y"}},
	{`local a = x; local function g() local z = 1 end; local b = y; return debug.getlocal(1, n)`, []string{"a", "g", "b"}, []string{"x", "f", "y"}},
	{`local function f(a, b) do local p = 1 end; do local q = a; local r = 3; return debug.getlocal(1, n) end end; return f(x, y)`, []string{"a", "b", "q", "r"}, []string{"x", "y", "x", "3"}},
	{`local a = x; do local p = 1; do local q = 2 end end; do do local r = 3 end; local s = y; return debug.getlocal(1, n) end`, []string{"a", "s"}, []string{"x", "y"}},
	{`local a = x; if a == a then local p = 1 else local q = 2 end; local b = y; return debug.getlocal(1, n)`, []string{"a", "b"}, []string{"x", "y"}},
	{`local a = x; while true do local p = y; break end; repeat local q = 1 until true; local c = 7; return debug.getlocal(1, n)`, []string{"a", "c"}, []string{"x", "7"}},
	// queried from a function called as the very last statement of a block, right after a declaration, and while
	// an initialiser is still being evaluated (the new variable is not in scope yet)
	{`local function probe() R1, R2 = debug.getlocal(2, n) end; local a = x; do local p = y; probe() end; return R1, R2`, []string{"probe", "a", "p"}, []string{"f", "x", "y"}},
	{`local function probe() R1, R2 = debug.getlocal(2, n) end; local a = x; local b = y; probe(); return R1, R2`, []string{"probe", "a", "b"}, []string{"f", "x", "y"}},
	{`local function probe() R1, R2 = debug.getlocal(2, n); return 1 end; local a = x; local b = probe(); return R1, R2`, []string{"probe", "a"}, []string{"f", "x"}},
	{`local function probe() R1, R2 = debug.getlocal(2, n) end; local function f(p, q) probe() end; f(x, y); return R1, R2`, []string{"p", "q"}, []string{"x", "y"}},
	{`local function probe() R1, R2 = debug.getlocal(2, n) end; local a = x; for i = 1, 1 do local q = y; probe() end; return R1, R2`, []string{"probe", "a", "(for index)", "(for limit)", "(for step)", "i", "q"}, []string{"f", "x", "1", "1", "1", "1", "y"}},
	// queried from a metamethod fired by the very first instruction of a scope (an ADD / GETTABLE on local operands
	// right after a declaration, as the first instruction of a loop body): no CALL can sit there (round-6 seeded
	// change C17-localname-startpc-exclusive)
	{`local mt = {__add = function(a, b) R1, R2 = debug.getlocal(2, n); return 0 end}; local t = setmetatable({}, mt); local a = x; local z = t + t; return R1, R2`, []string{"mt", "t", "a"}, []string{"t", "t", "x"}},
	{`local mt = {__index = function(t, k) R1, R2 = debug.getlocal(2, n) end}; local function g(p) local q = y; local w = p.missing; return w end; g(setmetatable({}, mt)); return R1, R2`, []string{"p", "q"}, []string{"t", "y"}},
	{`local mt = {__add = function(a, b) R1, R2 = debug.getlocal(2, n); return 0 end}; local t = setmetatable({}, mt); for i = 1, 1 do local w = t + t end; return R1, R2`, []string{"mt", "t", "(for index)", "(for limit)", "(for step)", "i"}, []string{"t", "t", "1", "1", "1", "1"}},
}

//verif:harness prop=C17 tier=quick bounds="16 scope layouts (sequential and nested blocks, shadowing, local functions, if/while/repeat bodies left behind, queries from a function called as the last statement of a block / right after a declaration / inside an initialiser / in a loop body, and from __add / __index handlers fired by the first instruction of a scope), index n in 1..8, 2 symbolic float64 values"
func H_C17_scopes() {
	L := newL(Options{}, BaseLibName, DebugLibName)
	x, y := VFloat("x"), VFloat("y")
	L.G.Global.RawSetString("x", LNumber(x))
	L.G.Global.RawSetString("y", LNumber(y))
	n := 1 + VChoice(8)
	L.G.Global.RawSetString("n", LNumber(n))
	t := c17Scopes[VChoice(len(c17Scopes))]
	err := loadRun(L, t.src, 2)
	VAssert(err == nil, "scopes: runs: "+t.src)
	if n <= len(t.names) {
		VAssert(L.Get(1) == LString(t.names[n-1]), "scopes: the n-th variable in scope, in declaration order: "+t.src)
		switch v := t.vals[n-1]; v {
		case "x":
			VAssert(sameValue(L.Get(2), LNumber(x)), "scopes: its current value: "+t.src)
		case "y":
			VAssert(sameValue(L.Get(2), LNumber(y)), "scopes: its current value: "+t.src)
		case "f":
			_, ok := L.Get(2).(*LFunction)
			VAssert(ok, "scopes: its current value: "+t.src)
		case "t":
			_, ok := L.Get(2).(*LTable)
			VAssert(ok, "scopes: its current value: "+t.src)
		default:
			VAssert(L.Get(2) == LNumber(float64(int(v[0]-'0'))), "scopes: its current value: "+t.src)
		}
	} else {
		nm, isStr := L.Get(1).(LString)
		VAssert(L.Get(1) == LNil || (isStr && len(nm) > 0 && nm[0] == '('), "scopes: beyond the variables in scope there is nothing (or a temporary): "+t.src)
	}
	VReach("end")
}

// C17.upvalues — debug.getupvalue enumerates the upvalues of a closure in the order of their first occurrence
// in its body (lparser.c indexupvalue: an upvalue gets its index when it is first named, also as an assignment
// target), with their current values; setupvalue changes exactly that variable.
type c17up struct {
	src   string // defines f and the locals; the harness appends the query
	names []string
	vals  []string // "x", "y" or a literal digit
}

var c17Ups = []c17up{
	{`local a, b = x, y; local function f() return a + b end`, []string{"a", "b"}, []string{"x", "y"}},
	{`local a, b = x, y; local function f() return b + a end`, []string{"b", "a"}, []string{"y", "x"}},
	{`local a, b = x, y; local function f() a = b end`, []string{"a", "b"}, []string{"x", "y"}},
	{`local a, b, c = x, y, 3; local function f() a, b, c = 1, 2, 3 end`, []string{"a", "b", "c"}, []string{"x", "y", "3"}},
	{`local a, b, c = x, y, 3; local function f() c = a; b = c end`, []string{"c", "a", "b"}, []string{"3", "x", "y"}},
	{`local a, b = x, y; local function f() local function g() return b end; return a, g end`, []string{"b", "a"}, []string{"y", "x"}},
	{`local a, b = x, y; local function f() a.k = b end`, []string{"a", "b"}, []string{"x", "y"}},
}

//verif:harness prop=C17 tier=quick bounds="7 closures (reads, assignments as first use, multiple assignment, nested capture, indexed store); index n in 1..4; getupvalue name and value, setupvalue effect; 2 symbolic float64 values"
func H_C17_upvalues() {
	L := newL(Options{}, BaseLibName, DebugLibName)
	x, y := VFloat("x"), VFloat("y")
	L.G.Global.RawSetString("x", LNumber(x))
	L.G.Global.RawSetString("y", LNumber(y))
	n := 1 + VChoice(4)
	L.G.Global.RawSetString("n", LNumber(n))
	t := c17Ups[VChoice(len(c17Ups))]
	val := func(s string) LValue {
		switch s {
		case "x":
			return LNumber(x)
		case "y":
			return LNumber(y)
		}
		return LNumber(float64(int(s[0] - '0')))
	}
	if VChoice(2) == 0 {
		err := loadRun(L, t.src+"; return debug.getupvalue(f, n)", 2)
		VAssert(err == nil, "upvalues: runs: "+t.src)
		if n <= len(t.names) {
			VAssert(L.Get(1) == LString(t.names[n-1]), "upvalues: the n-th upvalue in order of first occurrence: "+t.src)
			VAssert(sameValue(L.Get(2), val(t.vals[n-1])), "upvalues: its current value: "+t.src)
		} else {
			VAssert(L.Get(1) == LNil, "upvalues: beyond the upvalues there is nothing: "+t.src)
		}
	} else {
		if len(t.names) < 2 {
			return
		}
		// setupvalue(f, n, 77) changes exactly the named variable (observed through fresh reads of the locals)
		ret := "; local nm = debug.setupvalue(f, n, 77); return nm"
		for _, nm := range uniq(t.names) {
			ret += ", " + nm
		}
		u := uniq(t.names)
		err := loadRun(L, t.src+ret, 1+len(u))
		VAssert(err == nil, "upvalues: setupvalue runs: "+t.src)
		if n <= len(t.names) {
			VAssert(L.Get(1) == LString(t.names[n-1]), "upvalues: setupvalue returns the name of the n-th upvalue: "+t.src)
			for i, nm := range u {
				if nm == t.names[n-1] {
					VAssert(L.Get(2+i) == LNumber(77), "upvalues: setupvalue changes the named variable: "+t.src)
				} else {
					VAssert(sameValue(L.Get(2+i), val(t.vals[indexOf(t.names, nm)])), "upvalues: setupvalue leaves every other variable alone: "+t.src)
				}
			}
		}
	}
	VReach("end")
}

func uniq(l []string) []string {
	var out []string
	for _, s := range l {
		if indexOf(out, s) < 0 {
			out = append(out, s)
		}
	}
	return out
}

func indexOf(l []string, s string) int {
	for i, v := range l {
		if v == s {
			return i
		}
	}
	return -1
}
