//go:build verif

package lua

// C10.stack — the API value stack is a private list indexed 1..top / -1..-top.
//
//verif:harness prop=C10 tier=quick bounds="host function called with n<=3 arguments below 2 caller values; one operation (Get/Push/Pop/SetTop/Insert/Remove/Replace) with a symbolic index in [-n-2, n+2]"
func H_C10_stack() {
	L := newL(Options{}, BaseLibName)
	n := VChoice(4)
	op := VChoice(7)
	idx := int(VI32("idx"))
	VAssume(VAnd(idx >= -n-2, idx <= n+2))
	// caller values that must never be disturbed
	L.Push(LNumber(901))
	L.Push(LNumber(902))
	callerTop := L.GetTop()
	ran := false
	fn := L.NewFunction(func(L *LState) int {
		ran = true
		VAssert(L.GetTop() == n, "stack: GetTop is the argument count")
		model := make([]LValue, n)
		for i := 0; i < n; i++ {
			model[i] = LNumber(10 + i)
		}
		abs := func(i int) int { // model position (1-based) or 0 when outside
			if i > 0 && i <= len(model) {
				return i
			}
			if i < 0 && -i <= len(model) {
				return len(model) + i + 1
			}
			return 0
		}
		ci := VConc(idx)
		switch op {
		case 0: // Get
			g := L.Get(ci)
			if p := abs(ci); p != 0 {
				VAssert(g == model[p-1], "stack: Get(valid index)")
			} else {
				VAssert(g == LNil, "stack: Get outside the list is nil")
			}
		case 1: // Push
			L.Push(LNumber(77))
			model = append(model, LNumber(77))
		case 2: // Pop(k)
			if ci >= 0 && ci <= len(model) {
				L.Pop(ci)
				model = model[:len(model)-ci]
			}
		case 3: // SetTop
			if ci >= 0 {
				L.SetTop(ci)
				for len(model) < ci {
					model = append(model, LNil)
				}
				model = model[:ci]
			}
		case 4: // Insert
			if p := abs(ci); p != 0 {
				L.Insert(LNumber(55), ci)
				model = append(model, nil)
				copy(model[p:], model[p-1:])
				model[p-1] = LNumber(55)
			}
		case 5: // Remove (an index outside the list removes nothing)
			L.Remove(ci)
			if p := abs(ci); p != 0 {
				model = append(model[:p-1], model[p:]...)
			}
		case 6: // Replace (an index outside the list replaces nothing and does not grow the list)
			if ci != 0 {
				L.Replace(ci, LNumber(66))
				if p := abs(ci); p != 0 {
					model[p-1] = LNumber(66)
				}
			}
		}
		VAssert(L.GetTop() == len(model), "stack: GetTop after the operation")
		for i := range model {
			VAssert(L.Get(i+1) == model[i], "stack: contents after the operation")
			VAssert(L.Get(i-len(model)) == model[i], "stack: negative index addresses the same slot")
		}
		VAssert(L.Get(len(model)+1) == LNil && L.Get(-len(model)-1) == LNil, "stack: reads beyond either end give nil")
		return 0
	})
	L.Push(fn)
	for i := 0; i < n; i++ {
		L.Push(LNumber(10 + i))
	}
	err := L.PCall(n, 0, nil)
	VAssert(err == nil, "stack: host function runs")
	VAssert(ran, "stack: host function was called")
	VAssert(L.GetTop() == callerTop, "stack: caller's height restored")
	VAssert(L.Get(1) == LNumber(901) && L.Get(2) == LNumber(902), "stack: caller's values untouched")
	VReach("end")
}

// C10.call — Call/PCall leave exactly NRet results and remove function and arguments.
//
//verif:harness prop=C10 tier=quick bounds="nargs 0..2, NRet in {MultRet,0,1,2,3}, callee pushes p<=3 values and returns r<=p, Go callee; protected and unprotected"
func H_C10_call() {
	L := newL(Options{}, BaseLibName)
	nargs := VChoice(3)
	nret := VChoice(5) - 1
	p := VChoice(4)
	r := VChoice(p + 1)
	fail := VChoice(2) == 1
	L.Push(LNumber(901))
	base := L.GetTop()
	fn := L.NewFunction(func(L *LState) int {
		VAssert(L.GetTop() == nargs, "call: callee sees exactly the arguments")
		for i := 0; i < p; i++ {
			L.Push(LNumber(20 + i))
		}
		if fail {
			L.RaiseError("boom")
		}
		return r
	})
	L.Push(fn)
	for i := 0; i < nargs; i++ {
		L.Push(LNumber(10 + i))
	}
	err := L.PCall(nargs, nret, nil)
	if fail {
		VAssert(err != nil, "call: failure is reported")
		VAssert(L.GetTop() == base, "call: a failed protected call leaves neither arguments nor partial results")
	} else {
		VAssert(err == nil, "call: succeeds")
		want := nret
		if nret == MultRet {
			want = r
		}
		VAssert(L.GetTop() == base+want, "call: exactly NRet results are left")
		for i := 0; i < want; i++ {
			if i < r {
				VAssert(L.Get(base+1+i) == LNumber(20+p-r+i), "call: results are the callee's top-most r values in order")
			} else {
				VAssert(L.Get(base+1+i) == LNil, "call: missing results are nil")
			}
		}
	}
	VAssert(L.Get(base) == LNumber(901), "call: caller's values untouched")
	VReach("end")
}


// C10.nested — a failed protected call made from inside a host function leaves that function's own
// list exactly as before the function and arguments were pushed.
//
//verif:harness prop=C10,C05 tier=quick bounds="host function at depth 1..2 (entered from Lua or from Go) with m<=2 own values makes PCall / CallByParam{Protect} with 0..2 arguments that fails or succeeds; with and without handler"
func H_C10_nested() {
	L := newL(Options{}, BaseLibName)
	m := VChoice(3)
	nargs := VChoice(3)
	fail := VChoice(2) == 1
	withHandler := VChoice(2) == 1
	viaLua := VChoice(2) == 1
	useParam := VChoice(2) == 1
	inner := L.NewFunction(func(L *LState) int {
		L.Push(LNumber(31))
		L.Push(LNumber(32))
		if fail {
			L.RaiseError("inner failed")
		}
		return 1
	})
	handler := L.NewFunction(func(L *LState) int { L.Push(LString("handled")); return 1 })
	ran := false
	outer := L.NewFunction(func(L *LState) int {
		ran = true
		for i := 0; i < m; i++ {
			L.Push(LNumber(20 + i))
		}
		top0 := L.GetTop()
		var err error
		var h *LFunction
		if withHandler {
			h = handler
		}
		if useParam {
			args := []LValue{LNumber(1), LNumber(2)}[:nargs]
			err = L.CallByParam(P{Fn: inner, NRet: 1, Protect: true, Handler: h}, args...)
		} else {
			L.Push(inner)
			for i := 0; i < nargs; i++ {
				L.Push(LNumber(1 + i))
			}
			err = L.PCall(nargs, 1, h)
		}
		if fail {
			VAssert(err != nil, "nested: failure reported")
			VAssert(L.GetTop() == top0, "nested: a failed protected call leaves neither function, arguments nor partial results in the host function's list")
		} else {
			VAssert(err == nil, "nested: success")
			VAssert(L.GetTop() == top0+1 && L.Get(-1) == LNumber(32), "nested: exactly NRet results on top")
			L.Pop(1)
		}
		for i := 0; i < m; i++ {
			VAssert(L.Get(top0-m+1+i) == LNumber(20+i), "nested: the host function's own values are untouched")
		}
		VAssert(L.Get(1) == LNumber(7), "nested: the host function still sees its argument")
		return 0
	})
	L.G.Global.RawSetString("outer", outer)
	if viaLua {
		VAssert(L.DoString("local a, b = 1, 2; outer(7); assert(a == 1 and b == 2)") == nil, "nested: Lua caller unaffected")
	} else {
		L.Push(LNumber(901))
		L.Push(outer)
		L.Push(LNumber(7))
		L.Call(1, 0)
		VAssert(L.GetTop() == 1 && L.Get(1) == LNumber(901), "nested: Go caller's stack unaffected")
	}
	VAssert(ran, "nested: host function ran")
	VReach("end")
}


// C10.objops — the object-level API calls give exactly what the corresponding Lua expression gives
// on the same operands, metamethods and protected metatables included.
//
//verif:harness prop=C10 tier=quick bounds="operand pairs over {symbolic number, pool string, plain table, table with metatable (all events, optionally protected by __metatable), userdata with the same metatable}; ObjLen, Equal, RawEqual, LessThan, Concat, GetTable/GetField, SetTable/SetField, GetMetatable, ToStringMeta, Next compared with #, ==, rawequal, <, .., indexing, assignment, getmetatable, tostring, next executed by the VM"
func H_C10_objops() {
	L := newL(Options{}, BaseLibName)
	mt := L.NewTable()
	hv := VFloat("h")
	var opA LValue // the left operand, known to the handlers so that their results depend on the argument order
	for _, ev := range []string{"__len", "__eq", "__lt", "__le", "__concat", "__index", "__tostring"} {
		ev := ev
		mt.RawSetString(ev, L.NewFunction(func(L *LState) int {
			switch ev {
			case "__eq", "__lt", "__le":
				// order-sensitive: true exactly when the first argument is the operand called a
				L.Push(LBool(L.Get(1) == opA))
			case "__tostring":
				L.Push(LString("TS"))
			case "__concat":
				if L.Get(1) == opA {
					L.Push(LString("CC"))
				} else {
					L.Push(LString("CC-second-operand-first"))
				}
			default:
				L.Push(LNumber(hv))
			}
			return 1
		}))
	}
	protected := VChoice(3)
	switch protected {
	case 1:
		mt.RawSetString("__metatable", LString("locked"))
	case 2:
		decoy := L.NewTable()
		decoy.RawSetString("__len", L.NewFunction(func(L *LState) int { L.Push(LNumber(-1)); return 1 }))
		mt.RawSetString("__metatable", decoy)
	}
	mk := func(kind int) LValue {
		switch kind {
		case 0:
			return LNumber(VFloat("n"))
		case 1:
			return LString(strPool[VChoice(len(strPool))])
		case 2:
			t := L.NewTable()
			t.RawSetInt(1, LNumber(5))
			t.RawSetString("k", LNumber(6))
			return t
		case 3:
			t := L.NewTable()
			t.RawSetInt(1, LNumber(5))
			t.Metatable = mt
			return t
		}
		ud := L.NewUserData()
		ud.Metatable = mt
		return ud
	}
	a, b := mk(VChoice(5)), mk(VChoice(5))
	if VChoice(4) == 0 {
		b = a // the same object on both sides (== is true without consulting __eq)
	}
	opA = a
	L.G.Global.RawSetString("a", a)
	L.G.Global.RawSetString("b", b)
	// run the Lua expression protected; returns its value or failure
	vm := func(expr string) (LValue, bool) {
		base := L.GetTop()
		if err := loadRun(L, "return "+expr, 1); err != nil {
			L.SetTop(base)
			return LNil, false
		}
		v := L.Get(-1)
		L.SetTop(base)
		return v, true
	}
	api := func(f func() LValue) (v LValue, ok bool) {
		base := L.GetTop()
		L.Push(L.NewFunction(func(L *LState) int { L.Push(f()); return 1 }))
		if err := L.PCall(0, 1, nil); err != nil {
			L.SetTop(base)
			return LNil, false
		}
		v = L.Get(-1)
		L.SetTop(base)
		return v, true
	}
	same := func(label string, av LValue, aok bool, vv LValue, vok bool) {
		VAssert(aok == vok, "objops: "+label+" fails exactly when the Lua operation fails")
		if aok && vok {
			VAssert(sameValue(av, vv), "objops: "+label+" gives the value of the Lua operation")
		}
	}
	switch VChoice(8) {
	case 0:
		vv, vok := vm("#a")
		_, isStrOrTab := a.(LString)
		if _, isT := a.(*LTable); isT {
			isStrOrTab = true
		}
		av, aok := api(func() LValue { return LNumber(L.ObjLen(a)) })
		if isStrOrTab || vok {
			// (ObjLen of a value without length is reported in DESIGN 14.3; compared where # is defined)
			if n, isNum := vv.(LNumber); vok && isNum && float64(n) == float64(int(n)) {
				same("ObjLen", av, aok, vv, vok)
			}
		}
	case 1:
		vv, vok := vm("a == b")
		av, aok := api(func() LValue { return LBool(L.Equal(a, b)) })
		same("Equal", av, aok, vv, vok)
		vv, vok = vm("rawequal(a, b)")
		av, aok = api(func() LValue { return LBool(L.RawEqual(a, b)) })
		same("RawEqual", av, aok, vv, vok)
	case 2:
		vv, vok := vm("a < b")
		av, aok := api(func() LValue { return LBool(L.LessThan(a, b)) })
		same("LessThan", av, aok, vv, vok)
	case 3:
		_, isNumA := a.(LNumber)
		_, isNumB := b.(LNumber)
		if isNumA || isNumB {
			break // number formatting of symbolic numbers is opaque to the engine
		}
		vv, vok := vm("a .. b")
		av, aok := api(func() LValue { return LString(L.Concat(a, b)) })
		same("Concat", av, aok, vv, vok)
	case 4:
		vv, vok := vm("a[1]")
		av, aok := api(func() LValue { return L.GetTable(a, LNumber(1)) })
		same("GetTable", av, aok, vv, vok)
		vv, vok = vm("a.k")
		av, aok = api(func() LValue { return L.GetField(a, "k") })
		same("GetField", av, aok, vv, vok)
	case 5:
		vv, vok := vm("getmetatable(a)")
		av, aok := api(func() LValue { return L.GetMetatable(a) })
		same("GetMetatable", av, aok, vv, vok)
	case 6:
		if _, isNum := a.(LNumber); isNum {
			break // formatting a symbolic number is opaque to the engine
		}
		vv, vok := vm("tostring(a) == 'TS'")
		av, aok := api(func() LValue { return LBool(L.ToStringMeta(a) == LString("TS")) })
		same("ToStringMeta", av, aok, vv, vok)
	case 7:
		if t, isT := a.(*LTable); isT {
			vv, vok := vm("(next(a))")
			av, aok := api(func() LValue { k, _ := L.Next(t, LNil); return k })
			same("Next", av, aok, vv, vok)
		}
	}
	VReach("end")
}
