//go:build verif

package lua

import "math"

// References for C15.math: the Go library function that *is* the definition (an uninterpreted
// function for symbolic arguments), applied in the documented argument order.
func mathModRef(x, y float64) float64   { return math.Mod(x, y) }
func mathPowRef(x, y float64) float64   { return math.Pow(x, y) }
func mathAtan2Ref(x, y float64) float64 { return math.Atan2(x, y) }
func mathSqrtRef(x float64) float64     { return math.Sqrt(x) }
func mathInfRef(sign int) float64        { return math.Inf(sign) }
func mathRadPerDeg() float64             { return math.Pi / 180 }

// mathLdexpRef is ldexp by its definition, in integer arithmetic on the IEEE fields (no floating-point
// operation at all): x = (-1)^s * M * 2^(ex-1075) with M the 53-bit significand of a normal x; the result is
// M * 2^(ex+e-1075) rounded once, to nearest even, into the format.  Subnormal x is outside this reference
// (ok = false); it is covered by the frexp/ldexp recomposition law.
func mathLdexpRef(x float64, e int) (r float64, ok bool) {
	if x == 0 || x != x || x > math.MaxFloat64 || x < -math.MaxFloat64 {
		return x, true
	}
	b := math.Float64bits(x)
	sign := b & (1 << 63)
	ex := int((b >> 52) & 0x7ff)
	man := b & (1<<52 - 1)
	if ex == 0 {
		return 0, false
	}
	ne := ex + e
	if ne >= 2047 {
		return math.Float64frombits(sign | 0x7ff<<52), true
	}
	if ne >= 1 {
		return math.Float64frombits(sign | uint64(ne)<<52 | man), true
	}
	M := man | 1<<52
	s := uint(1 - ne)
	if s > 54 {
		return math.Float64frombits(sign), true
	}
	q := M >> s
	rem := M & (1<<s - 1)
	half := uint64(1) << (s - 1)
	if rem > half || (rem == half && q&1 == 1) {
		q++
	}
	return math.Float64frombits(sign | q), true
}
