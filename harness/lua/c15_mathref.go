//go:build verif

package lua

import "math"

// References for C15.math: the Go library function that *is* the definition (an uninterpreted
// function for symbolic arguments), applied in the documented argument order.
func mathModRef(x, y float64) float64   { return math.Mod(x, y) }
func mathPowRef(x, y float64) float64   { return math.Pow(x, y) }
func mathAtan2Ref(x, y float64) float64 { return math.Atan2(x, y) }
func mathSqrtRef(x float64) float64     { return math.Sqrt(x) }
