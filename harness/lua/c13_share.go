//go:build verif

package lua

import (
	"strings"

	"github.com/yuin/gopher-lua/parse"
)

// C13.payload — exactly functions, userdata, threads and tables with a metatable are refused as channel payloads.
//
//verif:harness prop=C13 tier=quick bounds="every dynamic LValue type x table with/without metatable; through isGoroutineSafe and checkGoroutineSafe"
func H_C13_payload() {
	L := newL(Options{}, BaseLibName)
	plain, withMt := L.NewTable(), L.NewTable()
	withMt.Metatable = L.NewTable()
	co, _ := L.NewThread()
	vals := []LValue{LNil, LTrue, LFalse, LNumber(VFloat("n")), LString(VStr("s", 1)), plain, withMt,
		L.NewFunction(func(*LState) int { return 0 }), L.NewUserData(), co, LChannel(make(chan LValue))}
	refused := []bool{false, false, false, false, false, false, true, true, true, true, false}
	k := VChoice(len(vals))
	VAssert(isGoroutineSafe(vals[k]) == !refused[k], "payload: refusal set is {function, userdata, thread, table with metatable}")
	L.Push(L.NewFunction(func(L *LState) int {
		checkGoroutineSafe(L, 2)
		return 0
	}))
	L.Push(LNil)
	L.Push(vals[k])
	err := L.PCall(2, 0, nil)
	VAssert((err != nil) == refused[k], "payload: send raises an argument error exactly for refused payloads")
	VReach("end")
}

type protoSnap struct {
	code    []uint32
	consts  []LValue
	strs    []string
	lines   []int
	nup     uint8
	nparam  uint8
	vararg  uint8
	nreg    uint8
	nested  []*protoSnap
	nlocals int
}

func snapProto(p *FunctionProto) *protoSnap {
	s := &protoSnap{code: append([]uint32{}, p.Code...), consts: append([]LValue{}, p.Constants...), strs: append([]string{}, p.stringConstants...),
		lines: append([]int{}, p.DbgSourcePositions...), nup: p.NumUpvalues, nparam: p.NumParameters, vararg: p.IsVarArg, nreg: p.NumUsedRegisters, nlocals: len(p.DbgLocals)}
	for _, c := range p.FunctionPrototypes {
		s.nested = append(s.nested, snapProto(c))
	}
	return s
}

func sameProto(p *FunctionProto, s *protoSnap) bool {
	if len(p.Code) != len(s.code) || len(p.Constants) != len(s.consts) || len(p.stringConstants) != len(s.strs) || len(p.DbgSourcePositions) != len(s.lines) ||
		p.NumUpvalues != s.nup || p.NumParameters != s.nparam || p.IsVarArg != s.vararg || p.NumUsedRegisters != s.nreg || len(p.DbgLocals) != s.nlocals || len(p.FunctionPrototypes) != len(s.nested) {
		return false
	}
	for i := range s.code {
		if p.Code[i] != s.code[i] {
			return false
		}
	}
	for i := range s.consts {
		if p.Constants[i] != s.consts[i] {
			return false
		}
	}
	for i := range s.strs {
		if p.stringConstants[i] != s.strs[i] {
			return false
		}
	}
	for i := range s.lines {
		if p.DbgSourcePositions[i] != s.lines[i] {
			return false
		}
	}
	for i := range s.nested {
		if !sameProto(p.FunctionPrototypes[i], s.nested[i]) {
			return false
		}
	}
	return true
}

var c13Programs = []string{
	`local s = 0; for i = 1, 3 do s = s + x * i end; return s`,
	`local t = {x, x + 1, k = x}; t.k = t[1] + t[2]; return t.k`,
	`local function f(a) return function() a = a + 1; return a end end; local g = f(x); g(); return g()`,
	`local s = "a" .. "b"; if x < 0 then return #s end; return #s + x`,
	`local ok, e = pcall(function() error({x}) end); return e[1]`,
	`local co = coroutine.wrap(function(a) local b = coroutine.yield(a + 1); return a + b end); return co(x) + co(x)`,
	// several non-local targets fed by one call (the compiler asks for a result-count context), nested in another
	`local function f() return x, x + 1, x + 2 end; ga, gb, gc = f(function() gx, gy = f() end); local t = {}; t.a, t.b = f(); return ga + gb + gc + t.a + t.b`,
}

// C13.footprint — executing a shared compiled prototype in two states never writes the prototype or
// any package-level variable, and each state computes what it computes alone.
//
//verif:harness prop=C13 tier=quick bounds="7 program templates compiled once and run in 2 states with independent symbolic integer inputs (32-bit); sequential executions only (no goroutine schedules)"
//verif:assume sequential footprint argument: if no execution writes shared memory (prototype, package variables) then states sharing them cannot interfere through them; data races and channel delivery are outside this check
func H_C13_footprint() {
	k := VChoice(len(c13Programs))
	chunk, err := parse.Parse(strings.NewReader(c13Programs[k]), "p")
	VAssert(err == nil, "footprint: parses")
	proto, err := Compile(chunk, "p")
	VAssert(err == nil, "footprint: compiles")
	snap := snapProto(proto)
	run := func(x float64) (LValue, bool) {
		L := newL(Options{}, BaseLibName, CoroutineLibName)
		L.G.Global.RawSetString("x", LNumber(x))
		L.Push(L.NewFunctionFromProto(proto))
		if err := L.PCall(0, 1, nil); err != nil {
			return LNil, false
		}
		return L.Get(-1), true
	}
	x1, x2 := float64(VI32("x1")), float64(VI32("x2"))
	r1, ok1 := run(x1)
	VAssert(sameProto(proto, snap), "footprint: running a prototype does not modify it")
	r2, ok2 := run(x2)
	VAssert(sameProto(proto, snap), "footprint: running a shared prototype in a second state does not modify it")
	r1b, ok1b := run(x1)
	VAssert(ok1 && ok2 && ok1b, "footprint: programs run")
	VAssert(sameValue(r1, r1b), "footprint: a state computes the same result whether or not another state ran the shared prototype in between")
	_ = r2
	VAssert(VGlobalsChanged() == 0, "footprint: no package-level variable of lua/parse/pm/ast is written by compiling or running")
	VReach("end")
}
