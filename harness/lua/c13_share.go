//go:build verif

package lua

import (
	"strings"

	"github.com/yuin/gopher-lua/parse"
)

// C13.payload — exactly functions, userdata, threads and tables with a metatable are refused as channel payloads.
//
//verif:harness prop=C13 tier=quick bounds="every dynamic LValue type x table with/without metatable; through isGoroutineSafe and checkGoroutineSafe"
func H_C13_payload() {
	L := newL(Options{}, BaseLibName)
	plain, withMt := L.NewTable(), L.NewTable()
	withMt.Metatable = L.NewTable()
	co, _ := L.NewThread()
	vals := []LValue{LNil, LTrue, LFalse, LNumber(VFloat("n")), LString(VStr("s", 1)), plain, withMt,
		L.NewFunction(func(*LState) int { return 0 }), L.NewUserData(), co, LChannel(make(chan LValue))}
	refused := []bool{false, false, false, false, false, false, true, true, true, true, false}
	k := VChoice(len(vals))
	VAssert(isGoroutineSafe(vals[k]) == !refused[k], "payload: refusal set is {function, userdata, thread, table with metatable}")
	L.Push(L.NewFunction(func(L *LState) int {
		checkGoroutineSafe(L, 2)
		return 0
	}))
	L.Push(LNil)
	L.Push(vals[k])
	err := L.PCall(2, 0, nil)
	VAssert((err != nil) == refused[k], "payload: send raises an argument error exactly for refused payloads")
	VReach("end")
}

type protoSnap struct {
	code    []uint32
	consts  []LValue
	strs    []string
	lines   []int
	nup     uint8
	nparam  uint8
	vararg  uint8
	nreg    uint8
	nested  []*protoSnap
	nlocals int
	// debug information (read by tracebacks, debug.getinfo/getlocal): also part of the shared prototype
	locals  []DbgLocalInfo
	calls   []DbgCall
	upnames []string
	source  string
	ldef    int
	lastdef int
}

func snapProto(p *FunctionProto) *protoSnap {
	s := &protoSnap{code: append([]uint32{}, p.Code...), consts: append([]LValue{}, p.Constants...), strs: append([]string{}, p.stringConstants...),
		lines: append([]int{}, p.DbgSourcePositions...), nup: p.NumUpvalues, nparam: p.NumParameters, vararg: p.IsVarArg, nreg: p.NumUsedRegisters, nlocals: len(p.DbgLocals)}
	for _, l := range p.DbgLocals {
		s.locals = append(s.locals, *l)
	}
	s.calls = append([]DbgCall{}, p.DbgCalls...)
	s.upnames = append([]string{}, p.DbgUpvalues...)
	s.source, s.ldef, s.lastdef = p.SourceName, p.LineDefined, p.LastLineDefined
	for _, c := range p.FunctionPrototypes {
		s.nested = append(s.nested, snapProto(c))
	}
	return s
}

func sameProto(p *FunctionProto, s *protoSnap) bool {
	if len(p.Code) != len(s.code) || len(p.Constants) != len(s.consts) || len(p.stringConstants) != len(s.strs) || len(p.DbgSourcePositions) != len(s.lines) ||
		p.NumUpvalues != s.nup || p.NumParameters != s.nparam || p.IsVarArg != s.vararg || p.NumUsedRegisters != s.nreg || len(p.DbgLocals) != s.nlocals || len(p.FunctionPrototypes) != len(s.nested) {
		return false
	}
	for i := range s.code {
		if p.Code[i] != s.code[i] {
			return false
		}
	}
	for i := range s.consts {
		if p.Constants[i] != s.consts[i] {
			return false
		}
	}
	for i := range s.strs {
		if p.stringConstants[i] != s.strs[i] {
			return false
		}
	}
	for i := range s.lines {
		if p.DbgSourcePositions[i] != s.lines[i] {
			return false
		}
	}
	if len(p.DbgCalls) != len(s.calls) || len(p.DbgUpvalues) != len(s.upnames) || p.SourceName != s.source || p.LineDefined != s.ldef || p.LastLineDefined != s.lastdef {
		return false
	}
	for i := range s.locals {
		if *p.DbgLocals[i] != s.locals[i] {
			return false
		}
	}
	for i := range s.calls {
		if p.DbgCalls[i] != s.calls[i] {
			return false
		}
	}
	for i := range s.upnames {
		if p.DbgUpvalues[i] != s.upnames[i] {
			return false
		}
	}
	for i := range s.nested {
		if !sameProto(p.FunctionPrototypes[i], s.nested[i]) {
			return false
		}
	}
	return true
}

var c13Programs = []string{
	`local s = 0; for i = 1, 3 do s = s + x * i end; return s`,
	`local t = {x, x + 1, k = x}; t.k = t[1] + t[2]; return t.k`,
	`local function f(a) return function() a = a + 1; return a end end; local g = f(x); g(); return g()`,
	`local s = "a" .. "b"; if x < 0 then return #s end; return #s + x`,
	`local ok, e = pcall(function() error({x}) end); return e[1]`,
	`local co = coroutine.wrap(function(a) local b = coroutine.yield(a + 1); return a + b end); return co(x) + co(x)`,
	// several non-local targets fed by one call (the compiler asks for a result-count context), nested in another
	`local function f() return x, x + 1, x + 2 end; ga, gb, gc = f(function() gx, gy = f() end); local t = {}; t.a, t.b = f(); return ga + gb + gc + t.a + t.b`,
	// tracebacks and debug queries through call sites whose callee has no name (fns[i]()), through named locals and
	// upvalues: the debug information of the shared prototype is read, never written (round-7 seeded change
	// C13-traceback-caches-name-in-proto)
	`local fns = {function() return debug.traceback("m") end, function(a) local n = debug.getlocal(1, 1); return debug.getinfo(1, "n").name or n end}; local s = fns[1](); local w = fns[2](1); local ok, tb = xpcall(function() fns[2](2); error("e") end, debug.traceback); return #s + #tb + #w + x`,
	`local u = x; local function named() return debug.traceback("t", 1) end; local function up() return debug.getupvalue(up, 1), u end; local s = named(); local t = {named}; local s2 = t[1](); up(); return #s + #s2 + u`,
}

// C13.footprint — executing a shared compiled prototype in two states never writes the prototype or
// any package-level variable, and each state computes what it computes alone.
//
//verif:harness prop=C13 tier=quick bounds="9 program templates (incl. tracebacks, debug.getinfo/getlocal/getupvalue through unnamed and named call sites) compiled once and run in 2 states with independent symbolic integer inputs (32-bit); sequential executions only (no goroutine schedules)"
//verif:assume sequential footprint argument: if no execution writes shared memory (prototype, package variables) then states sharing them cannot interfere through them; data races and channel delivery are outside this check
func H_C13_footprint() {
	k := VChoice(len(c13Programs))
	chunk, err := parse.Parse(strings.NewReader(c13Programs[k]), "p")
	VAssert(err == nil, "footprint: parses")
	proto, err := Compile(chunk, "p")
	VAssert(err == nil, "footprint: compiles")
	snap := snapProto(proto)
	run := func(x float64) (LValue, bool) {
		L := newL(Options{}, BaseLibName, CoroutineLibName, DebugLibName)
		L.G.Global.RawSetString("x", LNumber(x))
		L.Push(L.NewFunctionFromProto(proto))
		if err := L.PCall(0, 1, nil); err != nil {
			return LNil, false
		}
		return L.Get(-1), true
	}
	x1, x2 := float64(VI32("x1")), float64(VI32("x2"))
	r1, ok1 := run(x1)
	VAssert(sameProto(proto, snap), "footprint: running a prototype does not modify it")
	r2, ok2 := run(x2)
	VAssert(sameProto(proto, snap), "footprint: running a shared prototype in a second state does not modify it")
	r1b, ok1b := run(x1)
	VAssert(ok1 && ok2 && ok1b, "footprint: programs run")
	VAssert(sameValue(r1, r1b), "footprint: a state computes the same result whether or not another state ran the shared prototype in between")
	_ = r2
	VAssert(VGlobalsChanged() == 0, "footprint: no package-level variable of lua/parse/pm/ast is written by compiling or running")
	VReach("end")
}
