//go:build verif

package lua

import (
	"github.com/yuin/gopher-lua/pm"
)

var c14LibPatterns = []string{"a", "a*", "(a)(b?)", "()a", "^a", "a$", "[ab]+", "(.)%1", "%d", ".-b", "", "(a*)"}

func refPosrelat2(pos, l int) int {
	if pos < 0 {
		pos += l + 1
	}
	if pos >= 0 {
		return pos
	}
	return 0
}

// expected values pushed for a match by lstrlib's push_captures (wholeIfNone: match/gmatch/gsub-function)
func refCaptureValues(src string, m pm.RefMatch, wholeIfNone bool) []LValue {
	var out []LValue
	if len(m.Caps) == 0 && wholeIfNone {
		return []LValue{LString(src[m.Start:m.End])}
	}
	for _, c := range m.Caps {
		if c.Len == -2 {
			out = append(out, LNumber(c.Init+1))
		} else {
			out = append(out, LString(src[c.Init:c.Init+c.Len]))
		}
	}
	return out
}

func sameList(L *LState, base int, want []LValue) bool {
	if L.GetTop()-base != len(want) {
		return false
	}
	for i, w := range want {
		if !sameValue(L.Get(base+1+i), w) {
			return false
		}
	}
	return true
}

// C14.strlib — string.find/match/gmatch/gsub deliver lstrlib's results (positions, captures, init clamping, replacement assembly).
//
//verif:harness prop=C14,C15 tier=quick qparams=slen:2 tparams=slen:3 bounds="12 patterns x subjects of <= slen symbolic bytes x init any 32-bit integer; gsub with 4 replacement strings and a number, with and without a maximum count in -1..3, function and table replacements returning a string / false / nil / a number / true / a table"
func H_C14_strlib() {
	L := newL(Options{}, BaseLibName, StringLibName)
	pat := c14LibPatterns[VChoice(len(c14LibPatterns))]
	n := VChoice(VParam("slen", 2) + 1)
	src := VStr("s", n)
	strlib := L.GetGlobal("string")
	base := L.GetTop()
	switch VChoice(5) {
	case 4: // gsub with function and table replacements: false/nil keep the match, strings replace it
		mode := VChoice(2)
		retKind := VChoice(6) // what the callback returns / the table holds: string, false, nil, number, true, table
		ref, _ := pm.RefFindAll(pat, []byte(src))
		L.Push(L.GetField(strlib, "gsub"))
		L.Push(LString(src))
		L.Push(LString(pat))
		calls := 0
		var seenArgs [][]LValue
		if mode == 0 {
			L.Push(L.NewFunction(func(L *LState) int {
				calls++
				var a []LValue
				for i := 1; i <= L.GetTop(); i++ {
					a = append(a, L.Get(i))
				}
				seenArgs = append(seenArgs, a)
				switch retKind {
				case 0:
					L.Push(LString("<R>"))
				case 1:
					L.Push(LFalse)
				case 3:
					L.Push(LNumber(42))
				case 4:
					L.Push(LTrue)
				case 5:
					L.Push(L.NewTable())
				default:
					L.Push(LNil)
				}
				return 1
			}))
		} else {
			tb := L.NewTable()
			mtb := L.NewTable()
			mtb.RawSetString("__index", L.NewFunction(func(L *LState) int {
				calls++
				seenArgs = append(seenArgs, []LValue{L.Get(2)})
				switch retKind {
				case 0:
					L.Push(LString("<R>"))
				case 1:
					L.Push(LFalse)
				case 3:
					L.Push(LNumber(42))
				case 4:
					L.Push(LTrue)
				case 5:
					L.Push(L.NewTable())
				default:
					L.Push(LNil)
				}
				return 1
			}))
			tb.Metatable = mtb
			L.Push(tb)
		}
		err := L.PCall(3, 2, nil)
		if retKind >= 4 {
			// true, a table, ...: neither "keep the match" nor a string (lstrlib add_value: invalid replacement value)
			if len(ref) > 0 {
				VAssert(err != nil, "gsub(fn/table): a replacement value that is neither false/nil nor a string or number is an error: "+pat)
			} else {
				VAssert(err == nil, "gsub(fn/table): no match, no error: "+pat)
			}
			VReach("end")
			return
		}
		VAssert(err == nil, "gsub(fn/table): no error: "+pat)
		want := ""
		pos := 0
		for _, m := range ref {
			want += src[pos:m.Start]
			if retKind == 0 {
				want += "<R>"
			} else if retKind == 3 {
				want += "42"
			} else {
				want += src[m.Start:m.End] // false or nil: the original match is kept
			}
			pos = m.End
		}
		want += src[pos:]
		VAssert(sameValue(L.Get(base+1), LString(want)), "gsub(fn/table): a false or nil replacement keeps the match, a string replaces it: "+pat)
		VAssert(L.Get(base+2) == LNumber(len(ref)), "gsub(fn/table): count is the number of matches: "+pat)
		VAssert(calls == len(ref), "gsub(fn/table): the replacement is consulted once per match: "+pat)
		for i, m := range ref {
			if i < len(seenArgs) {
				wantArgs := refCaptureValues(src, m, true)
				if mode == 1 {
					wantArgs = wantArgs[:1] // a table is indexed with the first capture (or the whole match)
				}
				okArgs := len(seenArgs[i]) == len(wantArgs)
				for j := 0; okArgs && j < len(wantArgs); j++ {
					okArgs = sameValue(seenArgs[i][j], wantArgs[j])
				}
				VAssert(okArgs, "gsub(fn/table): the replacement receives the captures (or the whole match): "+pat)
			}
		}
	case 0, 1: // find / match with init
		isFind := VChoice(2) == 0
		init := int(VI32("init"))
		name := "match"
		if isFind {
			name = "find"
		}
		L.Push(L.GetField(strlib, name))
		L.Push(LString(src))
		L.Push(LString(pat))
		L.Push(LNumber(init))
		err := L.PCall(3, MultRet, nil)
		VAssert(err == nil, name+": no error for a valid pattern: "+pat)
		ri := refPosrelat2(init, n) - 1
		if ri < 0 {
			ri = 0
		} else if ri > n {
			ri = n
		}
		ri = VConc(ri)
		found, m, _ := pm.RefFind(pat, []byte(src), ri)
		if isFind && pat == "" {
			// no specials: plain find of the empty string succeeds at init
			VAssert(sameList(L, base, []LValue{LNumber(ri + 1), LNumber(ri)}), "find: empty pattern matches at the (clamped) init position")
		} else if !found {
			VAssert(L.GetTop()-base <= 1 && L.Get(base+1) == LNil, name+": no match gives nil: "+pat)
		} else if isFind {
			want := append([]LValue{LNumber(m.Start + 1), LNumber(m.End)}, refCaptureValues(src, m, false)...)
			VAssert(sameList(L, base, want), "find: start, end and captures as lstrlib: "+pat)
		} else {
			VAssert(sameList(L, base, refCaptureValues(src, m, true)), "match: captures (or whole match) as lstrlib: "+pat)
		}
	case 2: // gmatch: collect everything the iterator yields, through a generic for or by calling it directly
		direct := VChoice(2) == 1
		helper := `function collect(s, p) local out, n = {}, 0; for a, b in string.gmatch(s, p) do n = n + 1; out[n] = {a, b} end; return out, n, true end`
		if direct {
			helper = `function collect(s, p) local out, n = {}, 0; local f = string.gmatch(s, p); while true do local a, b = f(); if a == nil then break end; n = n + 1; out[n] = {a, b} end; return out, n, select('#', f()) == 0 and f() == nil end`
		}
		err := L.DoString(helper)
		VAssert(err == nil, "gmatch: helper")
		L.Push(L.GetGlobal("collect"))
		L.Push(LString(src))
		L.Push(LString(pat))
		err = L.PCall(2, 3, nil)
		VAssert(err == nil, "gmatch: no error: "+pat)
		VAssert(L.Get(base+3) == LTrue, "gmatch: the exhausted iterator keeps returning nothing: "+pat)
		// in gmatch a leading '^' is not an anchor (lstrlib's gmatch_aux hands the pattern to the matcher
		// unstripped, where '^' is an ordinary character)
		gpat := pat
		if len(gpat) > 0 && gpat[0] == '^' {
			gpat = "%" + gpat
		}
		ref, _ := pm.RefFindAll(gpat, []byte(src))
		VAssert(L.Get(base+2) == LNumber(len(ref)), "gmatch: same number of matches as lstrlib: "+pat)
		out, _ := L.Get(base + 1).(*LTable)
		for i, m := range ref {
			want := refCaptureValues(src, m, true)
			row, _ := out.RawGetInt(i + 1).(*LTable)
			VAssert(row != nil, "gmatch: row")
			for j := 0; j < 2; j++ {
				var w LValue = LNil
				if j < len(want) {
					w = want[j]
				}
				VAssert(sameValue(row.RawGetInt(j+1), w), "gmatch: yields the captures of each match in order: "+pat)
			}
		}
	case 3: // gsub with a replacement string
		repls := []string{"x", "<%0>", "%1%1", "%%", "7"}
		rk := VChoice(len(repls))
		repl := repls[rk]
		L.Push(L.GetField(strlib, "gsub"))
		L.Push(LString(src))
		L.Push(LString(pat))
		if rk == 4 {
			L.Push(LNumber(7)) // a number is a valid replacement (converted to its string)
		} else {
			L.Push(LString(repl))
		}
		// optional fourth argument: at most n substitutions (str_gsub: while (n < max_s)); none for n <= 0
		nargs := 3
		maxs := -1
		if VChoice(2) == 1 {
			maxs = VChoice(5) - 1 // -1, 0, 1, 2, 3
			L.Push(LNumber(maxs))
			nargs = 4
		} else {
			maxs = 1 << 30
		}
		err := L.PCall(nargs, 2, nil)
		ref, _ := pm.RefFindAll(pat, []byte(src))
		if maxs < 0 {
			maxs = 0
		}
		if len(ref) > maxs {
			ref = ref[:maxs]
		}
		// lstrlib add_s
		want := ""
		pos := 0
		bad := false
		for _, m := range ref {
			want += src[pos:m.Start]
			for i := 0; i < len(repl); i++ {
				if repl[i] != '%' {
					want += string(repl[i])
					continue
				}
				i++
				switch {
				case repl[i] == '%':
					want += "%"
				case repl[i] == '0':
					want += src[m.Start:m.End]
				default:
					l := int(repl[i] - '1')
					if l == 0 && len(m.Caps) == 0 {
						want += src[m.Start:m.End] // %1 with no captures is the whole match
					} else if l >= len(m.Caps) {
						bad = true
					} else if m.Caps[l].Len == -2 {
						want += string(rune('0' + m.Caps[l].Init + 1))
					} else {
						want += src[m.Caps[l].Init : m.Caps[l].Init+m.Caps[l].Len]
					}
				}
			}
			pos = m.End
		}
		want += src[pos:]
		if bad {
			VAssert(err != nil, "gsub: invalid capture index in the replacement is an error: "+pat+" -> "+repl)
		} else {
			VAssert(err == nil, "gsub: no error: "+pat+" -> "+repl)
			if err == nil {
				VAssert(sameValue(L.Get(base+1), LString(want)), "gsub: assembled result as lstrlib: "+pat+" -> "+repl)
				VAssert(L.Get(base+2) == LNumber(len(ref)), "gsub: substitution count as lstrlib: "+pat+" -> "+repl)
			}
		}
	}
	VReach("end")
}
