//go:build verif

package lua

// ---- C04: metamethod selection against the Lua 5.1 manual (section 2.8) ----

type c04env struct {
	L      *LState
	log    []string // handler invocations: "A" / "B"
	args   [][2]LValue
	mtA    *LTable
	mtB    *LTable
	ta, tb *LTable
	ret    float64
}

func newC04(evA, evB string, pa, pb bool) *c04env {
	e := &c04env{L: newL(Options{}, BaseLibName)}
	L := e.L
	e.mtA, e.mtB = L.NewTable(), L.NewTable()
	e.ta, e.tb = L.NewTable(), L.NewTable()
	e.ta.Metatable, e.tb.Metatable = e.mtA, e.mtB
	e.ret = VFloat("ret")
	mk := func(tag string) *LFunction {
		return L.NewFunction(func(L *LState) int {
			e.log = append(e.log, tag)
			e.args = append(e.args, [2]LValue{L.Get(1), L.Get(2)})
			L.Push(LNumber(e.ret))
			return 1
		})
	}
	if pa {
		e.mtA.RawSetString(evA, mk("A"))
	}
	if pb {
		e.mtB.RawSetString(evB, mk("B"))
	}
	L.G.Global.RawSetString("ta", e.ta)
	L.G.Global.RawSetString("tb", e.tb)
	return e
}

// C04.binary — arithmetic and concatenation try the left operand's handler, then the right's.
//
//verif:harness prop=C04 tier=quick bounds="7 binary events x operand pairs over {number, non-numeric string, table with metatable A, table with metatable B} x presence of the event in A and in B symbolic; handler result symbolic"
func H_C04_binary() {
	evs := []string{"__add", "__sub", "__mul", "__div", "__mod", "__pow", "__concat"}
	ops := []string{"+", "-", "*", "/", "%", "^", ".."}
	k := VChoice(len(evs))
	pa, pb := VBool("inA"), VBool("inB")
	e := newC04(evs[k], evs[k], pa, pb)
	L := e.L
	operands := []string{"5", "'s'", "ta", "tb"}
	i, j := VChoice(4), VChoice(4)
	if i < 2 && j < 2 {
		VReach("end") // no metatable involved
		return
	}
	err := loadRun(L, "return "+operands[i]+" "+ops[k]+" "+operands[j], 1)
	// reference: getbinhandler(op1, op2, event)
	has := func(o int) (bool, string) {
		switch o {
		case 2:
			return pa, "A"
		case 3:
			return pb, "B"
		}
		return false, ""
	}
	h1, t1 := has(i)
	h2, t2 := has(j)
	switch {
	case h1:
		VAssert(err == nil && len(e.log) == 1 && e.log[0] == t1, "binary: the left operand's handler is chosen "+evs[k])
	case h2:
		VAssert(err == nil && len(e.log) == 1 && e.log[0] == t2, "binary: otherwise the right operand's handler is chosen "+evs[k])
	default:
		VAssert(err != nil && len(e.log) == 0, "binary: without a handler the operation is an error "+evs[k])
		VReach("end")
		return
	}
	lv := func(o int) LValue {
		switch o {
		case 0:
			return LNumber(5)
		case 1:
			return LString("s")
		case 2:
			return e.ta
		}
		return e.tb
	}
	if len(e.args) == 1 {
		VAssert(e.args[0][0] == lv(i) && e.args[0][1] == lv(j), "binary: the handler receives the original operands in source order "+evs[k])
	}
	VAssert(sameValue(L.Get(-1), LNumber(e.ret)), "binary: the handler's first result is the result "+evs[k])
	VReach("end")
}

// C04.compare — __eq needs the identical handler on both operands; <= falls back to not (b < a).
//
//verif:harness prop=C04 tier=quick bounds="==, ~=, <, <=, >, >= on two tables; presence of __eq/__lt/__le and handler sharing symbolic; handler truth value symbolic"
func H_C04_compare() {
	L := newL(Options{}, BaseLibName)
	ta, tb := L.NewTable(), L.NewTable()
	mtA, mtB := L.NewTable(), L.NewTable()
	ta.Metatable, tb.Metatable = mtA, mtB
	L.G.Global.RawSetString("ta", ta)
	L.G.Global.RawSetString("tb", tb)
	truth := VBool("truth")
	var log []string
	var args [][2]LValue
	mk := func(tag string) *LFunction {
		return L.NewFunction(func(L *LState) int {
			log = append(log, tag)
			args = append(args, [2]LValue{L.Get(1), L.Get(2)})
			if truth {
				L.Push(LNumber(0)) // a true value that is not `true`
			} else {
				L.Push(LNil)
			}
			return 1
		})
	}
	hasEq, shared := VBool("hasEq"), VBool("sharedEq")
	hasLt, hasLe := VBool("hasLt"), VBool("hasLe")
	if hasEq {
		f := mk("eq")
		mtA.RawSetString("__eq", f)
		if shared {
			mtB.RawSetString("__eq", f)
		} else {
			mtB.RawSetString("__eq", mk("eq2"))
		}
	}
	if hasLt {
		f := mk("lt")
		mtA.RawSetString("__lt", f)
		mtB.RawSetString("__lt", f)
	}
	if hasLe {
		f := mk("le")
		mtA.RawSetString("__le", f)
		mtB.RawSetString("__le", f)
	}
	exprs := []string{"ta == tb", "ta ~= tb", "ta < tb", "ta <= tb", "ta > tb", "ta >= tb", "rawequal(ta, tb)", "ta == ta"}
	k := VChoice(len(exprs))
	err := loadRun(L, "return "+exprs[k], 1)
	res := L.Get(-1)
	b2l := func(b bool) LValue {
		if b {
			return LTrue
		}
		return LFalse
	}
	switch k {
	case 0, 1:
		VAssert(err == nil, "compare: equality never fails")
		if hasEq && shared {
			VAssert(len(log) == 1 && log[0] == "eq", "compare: __eq is called when both operands have the identical handler")
			VAssert(args[0][0] == LValue(ta) && args[0][1] == LValue(tb), "compare: __eq receives the operands in order")
			VAssert(res == b2l(truth == (k == 0)), "compare: the truth value of the handler's result decides == / ~=")
		} else {
			VAssert(len(log) == 0, "compare: __eq is not consulted unless both operands share the handler")
			VAssert(res == b2l(k == 1), "compare: different tables are not equal")
		}
	case 2, 4:
		if hasLt {
			VAssert(err == nil && len(log) == 1 && log[0] == "lt", "compare: < and > use __lt")
			if k == 2 {
				VAssert(args[0][0] == LValue(ta) && args[0][1] == LValue(tb), "compare: a < b calls __lt(a, b)")
			} else {
				VAssert(args[0][0] == LValue(tb) && args[0][1] == LValue(ta), "compare: a > b calls __lt(b, a)")
			}
			VAssert(res == b2l(truth), "compare: result is the truth value of __lt's result")
		} else {
			VAssert(err != nil, "compare: ordering tables without __lt is an error")
		}
	case 3, 5:
		switch {
		case hasLe:
			VAssert(err == nil && len(log) == 1 && log[0] == "le", "compare: <= and >= use __le when present")
			if k == 3 {
				VAssert(args[0][0] == LValue(ta) && args[0][1] == LValue(tb), "compare: a <= b calls __le(a, b)")
			} else {
				VAssert(args[0][0] == LValue(tb) && args[0][1] == LValue(ta), "compare: a >= b calls __le(b, a)")
			}
			VAssert(res == b2l(truth), "compare: result is the truth value of __le's result")
		case hasLt:
			VAssert(err == nil && len(log) == 1 && log[0] == "lt", "compare: without __le, <= falls back to __lt")
			if k == 3 {
				VAssert(args[0][0] == LValue(tb) && args[0][1] == LValue(ta), "compare: a <= b is not (b < a)")
			} else {
				VAssert(args[0][0] == LValue(ta) && args[0][1] == LValue(tb), "compare: a >= b is not (a < b)")
			}
			VAssert(res == b2l(!truth), "compare: fallback negates __lt's truth value")
		default:
			VAssert(err != nil, "compare: <= on tables without __le/__lt is an error")
		}
	case 6:
		VAssert(err == nil && res == LFalse && len(log) == 0, "compare: rawequal never invokes handlers")
	case 7:
		VAssert(err == nil && res == LTrue && len(log) == 0, "compare: a value equals itself without calling __eq")
	}
	VReach("end")
}

// C04.index — raw access first, then __index/__newindex through tables and functions.
//
//verif:harness prop=C04 tier=quick bounds="read and write of one key; raw presence symbolic; handler kind in {none, function, table, table whose own metatable has a function handler}; values symbolic"
func H_C04_index() {
	L := newL(Options{}, BaseLibName)
	t, mt := L.NewTable(), L.NewTable()
	t.Metatable = mt
	L.G.Global.RawSetString("t", t)
	raw := VBool("rawPresent")
	v, w, h := VFloat("v"), VFloat("w"), VFloat("h")
	if raw {
		t.RawSetString("k", LNumber(v))
	}
	calls := 0
	var gotArgs [3]LValue
	kind := VChoice(4)
	write := VChoice(2) == 1
	ev := "__index"
	if write {
		ev = "__newindex"
	}
	fn := L.NewFunction(func(L *LState) int {
		calls++
		gotArgs = [3]LValue{L.Get(1), L.Get(2), L.Get(3)}
		L.Push(LNumber(h))
		return 1
	})
	back := L.NewTable()
	backmt := L.NewTable()
	switch kind {
	case 1:
		mt.RawSetString(ev, fn)
	case 2:
		mt.RawSetString(ev, back)
		back.RawSetString("k", LNumber(w))
	case 3:
		mt.RawSetString(ev, back)
		back.Metatable = backmt
		backmt.RawSetString(ev, fn)
	}
	generic := VChoice(2) == 1 // key given by a variable (GETTABLE/SETTABLE) instead of a constant string (…KS)
	L.G.Global.RawSetString("kk", LString("k"))
	if !write {
		src := "return t.k, rawget(t, 'k')"
		if generic {
			src = "local key = kk; return t[key], rawget(t, key)"
		}
		err := loadRun(L, src, 2)
		VAssert(err == nil, "index: read never fails here")
		if raw {
			VAssert(sameValue(L.Get(-2), LNumber(v)) && calls == 0, "index: a raw field is returned without consulting __index")
		} else {
			switch kind {
			case 0:
				VAssert(L.Get(-2) == LNil, "index: absent key without handler is nil")
			case 1:
				VAssert(calls == 1 && sameValue(L.Get(-2), LNumber(h)), "index: function handler's first result is the value")
				VAssert(gotArgs[0] == LValue(t) && gotArgs[1] == LString("k"), "index: function handler receives (table, key)")
			case 2:
				VAssert(sameValue(L.Get(-2), LNumber(w)) && calls == 0, "index: table handler is indexed with the key")
			case 3:
				VAssert(calls == 1 && sameValue(L.Get(-2), LNumber(h)), "index: lookup continues through the handler table's own __index")
				VAssert(gotArgs[0] == LValue(back) && gotArgs[1] == LString("k"), "index: chained handler receives the handler table")
			}
		}
		if raw {
			VAssert(sameValue(L.Get(-1), LNumber(v)), "index: rawget returns the raw field")
		} else {
			VAssert(L.Get(-1) == LNil && (kind != 1 || calls == 1), "index: rawget never invokes handlers")
		}
	} else {
		L.G.Global.RawSetString("nv", LNumber(w))
		src := "t.k = nv"
		if generic {
			src = "local key = kk; t[key] = nv"
		}
		err := loadRun(L, src, 0)
		VAssert(err == nil, "newindex: assignment never fails here")
		if raw || kind == 0 {
			VAssert(sameValue(t.RawGetString("k"), LNumber(w)) && calls == 0, "newindex: present key (or no handler) is a raw store")
		} else {
			switch kind {
			case 1:
				VAssert(calls == 1 && t.RawGetString("k") == LNil, "newindex: function handler is called instead of storing")
				VAssert(gotArgs[0] == LValue(t) && gotArgs[1] == LString("k") && sameValue(gotArgs[2], LNumber(w)), "newindex: handler receives (table, key, value)")
			case 2:
				VAssert(sameValue(back.RawGetString("k"), LNumber(w)) && t.RawGetString("k") == LNil, "newindex: table handler receives the store")
			case 3:
				VAssert(calls == 1 && back.RawGetString("k") == LNil && t.RawGetString("k") == LNil, "newindex: store continues through the handler table's own __newindex")
				VAssert(gotArgs[0] == LValue(back) && gotArgs[1] == LString("k") && sameValue(gotArgs[2], LNumber(w)), "newindex: the chained handler receives the table it is attached to, the key and the value")
			}
		}
	}
	VReach("end")
}

// C04.misc — __unm, __call (statement, tail, iterator), __tostring, __metatable, raw bypass.
//
//verif:harness prop=C04 tier=quick bounds="7 templates, handler presence symbolic, 1 symbolic result"
func H_C04_misc() {
	L := newL(Options{}, BaseLibName)
	t, mt := L.NewTable(), L.NewTable()
	L.G.Global.RawSetString("t", t)
	L.G.Global.RawSetString("mt", mt)
	present := VBool("present")
	r := VFloat("r")
	L.G.Global.RawSetString("r", LNumber(r))
	calls := 0
	var a1 LValue
	h := L.NewFunction(func(L *LState) int {
		calls++
		a1 = L.Get(1)
		L.Push(LNumber(r))
		return 1
	})
	type tc struct {
		ev, src string
	}
	cases := []tc{
		{"__unm", "return -t"},
		{"__call", "return (t(1))"},
		{"__call", "return t(1)"},                                   // tail position
		{"__call", "for v in t do return v end return 'none'"},      // iterator position
		{"__tostring", "return tostring(t)"},
		{"__metatable", "return getmetatable(t)"},
		{"__metatable", "return pcall(setmetatable, t, {})"},
	}
	k := VChoice(len(cases))
	c := cases[k]
	var protect LValue = LNil
	if present {
		if c.ev == "__metatable" {
			protect = []LValue{LNumber(r), LFalse, LString("locked"), L.NewTable()}[VChoice(4)]
			mt.RawSetString(c.ev, protect)
		} else if c.ev == "__tostring" {
			mt.RawSetString(c.ev, L.NewFunction(func(L *LState) int { calls++; a1 = L.Get(1); L.Push(LString("TS")); return 1 }))
		} else {
			mt.RawSetString(c.ev, h)
		}
	}
	t.Metatable = mt
	err := loadRun(L, c.src, 1)
	res := L.Get(-1)
	switch k {
	case 0, 1, 2:
		if present {
			VAssert(err == nil && calls == 1 && a1 == LValue(t) && sameValue(res, LNumber(r)), "misc: "+c.ev+" handler is called with the object and its result is used: "+c.src)
		} else {
			VAssert(err != nil, "misc: without "+c.ev+" the operation is an error: "+c.src)
		}
	case 3:
		if present {
			VAssert(err == nil && calls >= 1 && sameValue(res, LNumber(r)), "misc: __call is honoured in iterator position")
		} else {
			VAssert(err != nil, "misc: a non-callable iterator is an error")
		}
	case 4:
		if present {
			VAssert(err == nil && calls == 1 && res == LString("TS"), "misc: tostring uses __tostring")
		} else {
			_, isStr := res.(LString)
			VAssert(err == nil && isStr, "misc: tostring without handler gives a string")
		}
	case 5:
		if present {
			VAssert(err == nil && sameValue(res, protect), "misc: getmetatable returns the __metatable field whatever its value (number, false, string, table)")
			VAssert(sameValue(L.GetMetatable(t), protect), "misc: the Go API GetMetatable agrees")
		} else {
			VAssert(err == nil && res == LValue(mt), "misc: getmetatable returns the metatable")
		}
	case 6:
		if present {
			VAssert(err == nil && res == LFalse, "misc: setmetatable on a protected metatable is an error")
		} else {
			VAssert(err == nil && res == LTrue, "misc: setmetatable succeeds without __metatable")
		}
	}
	VReach("end")
}
