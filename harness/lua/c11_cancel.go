//go:build verif

package lua

import (
	"context"
	"errors"
	"strings"
	"time"
)

// C05/C11.inject — a context cancelled at poll k (every k) stops the script with an error; the
// protected call boundary restores the caller's stack.
//
//verif:harness prop=C05,C11 tier=quick bounds="1 template (~25 VM steps), cancellation at every poll k in [0,40], 1 symbolic float64 input"
func H_C11_inject() {
	L := newL(Options{}, BaseLibName)
	a := VFloat("a")
	L.G.Global.RawSetString("x", LNumber(a))
	k := VInt("k")
	VAssume(VAnd(k >= 0, k <= 40))
	ctx := newFireCtx(k)
	L.SetContext(ctx)
	fn, err := L.LoadString(`
	local s = x
	local ok, e = pcall(function() for i = 1, 3 do s = s + 1 end; return s end)
	return ok, s`)
	VAssert(err == nil, "inject: loads")
	L.Push(fn)
	sp0, top0 := L.stack.Sp(), L.reg.Top()-1
	err = L.PCall(0, 2, nil)
	if err != nil {
		VReach("cancelled")
		VAssert(L.stack.Sp() == sp0, "inject: call depth restored")
		VAssert(L.reg.Top() == top0, "inject: value stack restored")
		VAssert(ctx.polls <= k+4, "inject: stops promptly (polls after firing bounded by call depth)")
	} else {
		VReach("completed")
		VAssert(L.Get(-2) == LTrue, "inject: completes normally when not cancelled")
		VAssert(sameValue(L.Get(-1), LNumber(a+1+1+1)), "inject: result unchanged by the attached context")
	}
	VReach("end")
}

// C11.firstcall — the very first call made on a fresh state (no library opened, so nothing has run on it yet)
// is cancelled like every later one.
//
//verif:harness prop=C11 tier=quick nonative bounds="fresh state with no library opened; a loop of 40 progress steps run as the state's first call (PCall); context done after k progress steps, k symbolic in [0, 12]"
func H_C11_firstcall() {
	k := int(VByte("k"))
	VAssume(k <= 12)
	ctx := newTickCtx(k)
	L := NewState(Options{SkipOpenLibs: true, CallStackSize: 32, RegistrySize: 256})
	L.G.Global.RawSetString("tick", L.NewFunction(func(L *LState) int {
		ctx.ticks++
		VAssert(ctx.ticks <= k+3, "firstcall: the script makes no further progress once the context is done")
		return 0
	}))
	L.SetContext(ctx)
	fn, err := L.LoadString(`for i = 1, 40 do tick() end`)
	VAssert(err == nil, "firstcall: loads")
	L.Push(fn)
	err = L.PCall(0, 0, nil)
	VAssert(err != nil && strings.Contains(err.Error(), "context canceled"), "firstcall: the first call on the state returns the context's error")
	VReach("end")
}

// tickCtx is done once the script has called the host function tick() k times: cancellation is
// injected at every point of the script's progress, independent of how often the VM polls.
type tickCtx struct {
	context.Context
	ticks  int
	k      int
	polls  int
	open   chan struct{}
	closed chan struct{}
}

func newTickCtx(k int) *tickCtx {
	c := &tickCtx{k: k, open: make(chan struct{}), closed: make(chan struct{})}
	close(c.closed)
	return c
}
func (c *tickCtx) fired() bool { return c.ticks >= c.k }
func (c *tickCtx) Done() <-chan struct{} {
	c.polls++
	if c.fired() {
		return c.closed
	}
	return c.open
}
var errCanceled = errors.New("context canceled")

func (c *tickCtx) Err() error {
	if c.fired() {
		return errCanceled
	}
	return nil
}
func (c *tickCtx) Deadline() (time.Time, bool)       { return time.Time{}, false }
func (c *tickCtx) Value(key interface{}) interface{} { return nil }

// childCtx is the documented contract of context.WithCancel: done iff the parent is done or the
// cancel function was called.
type childCtx struct {
	parent    context.Context
	cancelled bool
	closed    chan struct{}
}

func (c *childCtx) Done() <-chan struct{} {
	if c.cancelled {
		return c.closed
	}
	return c.parent.Done()
}
func (c *childCtx) Err() error {
	if c.cancelled {
		return errCanceled
	}
	return c.parent.Err()
}
func (c *childCtx) Deadline() (time.Time, bool)       { return time.Time{}, false }
func (c *childCtx) Value(key interface{}) interface{} { return nil }

//verif:stub context.WithCancel
func stubWithCancel(parent context.Context) (context.Context, context.CancelFunc) {
	c := &childCtx{parent: parent, closed: make(chan struct{})}
	close(c.closed)
	return c, func() { c.cancelled = true }
}

var c11Programs = []string{
	`while true do tick() end`,
	`local function rec(n) tick(); if n > 6 then return n end; return rec(n + 1) + 0 end; while true do rec(0) end`,
	`local function loop() tick(); return loop() end; loop()`,
	`::top:: tick(); goto top`,
	`while true do pcall(function() while true do tick() end end) end`,
	`local function work() tick(); error('again') end; while true do xpcall(work, function(m) for i = 1, 10 do tick() end; return m end) end`,
	`local t = setmetatable({}, {__index = function(t, k) tick(); return t[k + 1] end}); while true do pcall(function() return t[1] end) end`,
	`local co = coroutine.wrap(function() while true do tick(); coroutine.yield() end end); while true do tick(); co() end`,
	`local outer = coroutine.wrap(function() local inner = coroutine.wrap(function() while true do tick() end end); inner() end); outer()`,
	`local outer = coroutine.create(function() local inner = coroutine.create(function() while true do tick(); coroutine.yield() end end); while true do tick(); coroutine.resume(inner) end end); while true do coroutine.resume(outer) end`,
	`for i = 1, 1e9 do tick() end`,
	`repeat local t = {}; for j = 1, 2 do t[j] = tostring(j); tick() end until false`,
}

// C11.stop — once the context is done no further progress is made: every non-terminating template,
// cancellation injected after every number k of progress steps.
//
//verif:harness prop=C11 tier=quick nonative qparams=K:12 tparams=K:40 bounds="12 non-terminating templates (tight loop, recursion, tail calls, goto, pcall/xpcall retry loops with Lua handlers, metamethod recursion, coroutine ping-pong, nested and handle-resumed coroutines); context done after k progress steps, k symbolic in [0, K] (K=12 quick / 40 thorough); context attached to the main state or to a non-main thread driven by Resume; context.WithCancel replaced by its contract stub"
//verif:assume context.WithCancel(parent) is replaced by a stub: the child is done iff the parent is done or its cancel function was called
func H_C11_stop() {
	prog := c11Programs[VChoice(len(c11Programs))]
	onThread := VChoice(2) == 1
	K := VParam("K", 12)
	k := int(VByte("k"))
	VAssume(k <= K)
	ctx := newTickCtx(k)
	L := newL(Options{CallStackSize: 64}, BaseLibName, CoroutineLibName)
	const slack = 3 // progress steps tolerated after the context is done: bounded by the call depth at the moment of firing
	tick := L.NewFunction(func(L *LState) int {
		ctx.ticks++
		VAssert(ctx.ticks <= k+slack, "stop: the script makes no further progress once the context is done: "+prog)
		return 0
	})
	L.G.Global.RawSetString("tick", tick)
	fn, err := L.LoadString(prog)
	VAssert(err == nil, "stop: loads")
	if !onThread {
		L.SetContext(ctx)
		L.Push(fn)
		err = L.PCall(0, 0, nil)
		VAssert(err != nil, "stop: the running call returns an error")
	} else {
		co, _ := L.NewThread()
		co.SetContext(ctx)
		st, rerr, _ := L.Resume(co, fn)
		for i := 0; st == ResumeYield && i < 50; i++ {
			st, rerr, _ = L.Resume(co, fn)
		}
		VAssert(st == ResumeError && rerr != nil, "stop: Resume on the thread that carries the context returns an error")
		err = rerr
	}
	VAssert(ctx.fired(), "stop: the template only ends by cancellation")
	VAssert(err != nil && strings.Contains(err.Error(), "context canceled"), "stop: the error carries the context's reason")
	VReach("end")
}
