//go:build verif

package lua

// C05/C11.inject — a context cancelled at poll k (every k) stops the script with an error; the
// protected call boundary restores the caller's stack.
//
//verif:harness prop=C05,C11 tier=quick bounds="1 template (~25 VM steps), cancellation at every poll k in [0,40], 1 symbolic float64 input"
func H_C11_inject() {
	L := newL(Options{}, BaseLibName)
	a := VFloat("a")
	L.G.Global.RawSetString("x", LNumber(a))
	k := VInt("k")
	VAssume(VAnd(k >= 0, k <= 40))
	ctx := newFireCtx(k)
	L.SetContext(ctx)
	fn, err := L.LoadString(`
	local s = x
	local ok, e = pcall(function() for i = 1, 3 do s = s + 1 end; return s end)
	return ok, s`)
	VAssert(err == nil, "inject: loads")
	L.Push(fn)
	sp0, top0 := L.stack.Sp(), L.reg.Top()-1
	err = L.PCall(0, 2, nil)
	if err != nil {
		VReach("cancelled")
		VAssert(L.stack.Sp() == sp0, "inject: call depth restored")
		VAssert(L.reg.Top() == top0, "inject: value stack restored")
		VAssert(ctx.polls <= k+4, "inject: stops promptly (polls after firing bounded by call depth)")
	} else {
		VReach("completed")
		VAssert(L.Get(-2) == LTrue, "inject: completes normally when not cancelled")
		VAssert(sameValue(L.Get(-1), LNumber(a+1+1+1)), "inject: result unchanged by the attached context")
	}
	VReach("end")
}
