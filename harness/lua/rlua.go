//go:build verif

package lua

// R-lua: a direct AST-walking evaluator for the deterministic core of Lua 5.1 (+ goto), written
// from the reference manual. It consumes the real parser's AST and shares nothing else with the
// implementation under test: its own environments (heap cells), tables (association lists),
// closures, call/return/vararg adjustment, metamethod dispatch (manual section 2.8) and builtins.
// Scalars reuse the LNil/LBool/LNumber/LString value types (plain data, no behaviour).

import (
	"math"

	"github.com/yuin/gopher-lua/ast"
)

type rval interface{}

type rcell struct{ v rval }

type renv struct {
	names  []string
	cells  []*rcell
	parent *renv
	plimit int // how many names of the parent were declared when this scope was opened
}

func newEnv(parent *renv) *renv {
	e := &renv{parent: parent}
	if parent != nil {
		e.plimit = len(parent.names)
	}
	return e
}

// lookup finds the innermost declaration visible from this scope: later `local` statements of an
// enclosing block are not visible to scopes (and closures) opened before them.
func (e *renv) lookup(name string) *rcell {
	limit := len(e.names)
	for s := e; s != nil; s = s.parent {
		for i := limit - 1; i >= 0; i-- {
			if s.names[i] == name {
				return s.cells[i]
			}
		}
		limit = s.plimit
	}
	return nil
}

func (e *renv) declare(name string, v rval) {
	e.names = append(e.names, name)
	e.cells = append(e.cells, &rcell{v})
}

type rtable struct {
	keys []rval
	vals []rval
	meta *rtable
	id   int
}

type rfunc struct {
	par    *ast.ParList
	body   []ast.Stmt
	env    *renv
	envLim int // names of env visible to the closure (those declared before it was created)
	fenv   *rtable
	self   bool // method definition: implicit self parameter
	main   bool
	id     int
}

type rbuiltin struct {
	name string
	fn   func(r *rlua, args []rval) []rval
}

type rerror struct{ v rval }

type rlua struct {
	globals *rtable
	trace   []rval // values handed to emit, flattened with a separator per call
	steps   int
	nextID  int
	strmeta *rtable
	// softBound: exceeding the step bound skips the program instead of aborting the path; tooLong: it did
	softBound, tooLong bool
	frames             []*rfunc
}

type rsep struct{} // separator between emit calls in the trace

const (
	ctlNone = iota
	ctlBreak
	ctlReturn
	ctlGoto
)

type rctl struct {
	kind  int
	vals  []rval
	label string
}

func (r *rlua) fail(msg string) { panic(rerror{LString(msg)}) }

// rTooLong ends a reference run of a generated program that is longer than the step bound: the path is
// skipped (and counted), not judged.
type rTooLong struct{}

func (r *rlua) tick() {
	r.steps++
	if r.steps > 20000 {
		if r.softBound {
			panic(rTooLong{})
		}
		VAbort("R-lua step bound exceeded")
	}
}

// ---- values ----

func rtruthy(v rval) bool {
	switch x := v.(type) {
	case *LNilType:
		return false
	case LBool:
		return bool(x)
	}
	return true
}

func rtype(v rval) string {
	switch v.(type) {
	case *LNilType:
		return "nil"
	case LBool:
		return "boolean"
	case LNumber:
		return "number"
	case LString:
		return "string"
	case *rtable:
		return "table"
	}
	return "function"
}

// rawequal of the manual: numbers and strings by value, everything else by identity
func rraweq(a, b rval) bool {
	switch x := a.(type) {
	case LNumber:
		y, ok := b.(LNumber)
		return ok && float64(x) == float64(y)
	case LString:
		y, ok := b.(LString)
		return ok && x == y
	case LBool:
		y, ok := b.(LBool)
		return ok && x == y
	case *LNilType:
		_, ok := b.(*LNilType)
		return ok
	case *rtable:
		y, ok := b.(*rtable)
		return ok && x == y
	case *rfunc:
		y, ok := b.(*rfunc)
		return ok && x == y
	case *rbuiltin:
		y, ok := b.(*rbuiltin)
		return ok && x == y
	}
	return false
}

func (t *rtable) rawget(k rval) rval {
	for i := range t.keys {
		if rraweq(t.keys[i], k) {
			return t.vals[i]
		}
	}
	return LNil
}

func (t *rtable) rawset(k, v rval) {
	for i := range t.keys {
		if rraweq(t.keys[i], k) {
			if v == rval(LNil) {
				t.keys = append(t.keys[:i:i], t.keys[i+1:]...)
				t.vals = append(t.vals[:i:i], t.vals[i+1:]...)
			} else {
				t.vals[i] = v
			}
			return
		}
	}
	if v != rval(LNil) {
		t.keys = append(t.keys, k)
		t.vals = append(t.vals, v)
	}
}

// border: the largest n with t[1..n] all non-nil (any border is accepted by the comparison for
// tables with holes; the templates avoid holes unless stated)
func (t *rtable) length() int {
	n := 0
	for {
		if t.rawget(LNumber(n+1)) == rval(LNil) {
			return n
		}
		n++
	}
}

func (r *rlua) newTable() *rtable {
	r.nextID++
	return &rtable{id: r.nextID}
}

func (r *rlua) metaOf(v rval) *rtable {
	switch x := v.(type) {
	case *rtable:
		return x.meta
	case LString:
		return r.strmeta
	}
	return nil
}

func (r *rlua) metaEvent(v rval, ev string) rval {
	if m := r.metaOf(v); m != nil {
		return m.rawget(LString(ev))
	}
	return LNil
}

// str2number of the manual: decimal or hexadecimal numeral with optional surrounding blanks and sign
func rstr2num(s string) (float64, bool) {
	i, j := 0, len(s)
	for i < j && isBlank(s[i]) {
		i++
	}
	for j > i && isBlank(s[j-1]) {
		j--
	}
	neg := false
	if i < j && (s[i] == '-' || s[i] == '+') {
		neg = s[i] == '-'
		i++
	}
	ok, v, _ := refNumeral(s[i:j])
	if !ok || i == j {
		return 0, false
	}
	if neg {
		v = -v
	}
	return v, true
}

func rtonumber(v rval) (float64, bool) {
	switch x := v.(type) {
	case LNumber:
		return float64(x), true
	case LString:
		return rstr2num(string(x))
	}
	return 0, false
}

// number -> string for concatenation: integral values of small magnitude only (others abort the
// path as outside the modelled fragment)
func rnum2str(f float64) string {
	if f != math.Floor(f) || f > 1e15 || f < -1e15 {
		VAbort("R-lua: number formatting outside the modelled fragment")
	}
	n := int64(f)
	if n == 0 {
		return "0"
	}
	neg := n < 0
	if neg {
		n = -n
	}
	var b []byte
	for n > 0 {
		b = append([]byte{byte('0' + n%10)}, b...)
		n /= 10
	}
	if neg {
		b = append([]byte{'-'}, b...)
	}
	return string(b)
}

// ---- operations with metamethods (manual 2.8) ----

func (r *rlua) arith(op string, a, b rval) rval {
	x, ok1 := rtonumber(a)
	y, ok2 := rtonumber(b)
	if ok1 && ok2 {
		switch op {
		case "+":
			return LNumber(x + y)
		case "-":
			return LNumber(x - y)
		case "*":
			return LNumber(x * y)
		case "/":
			return LNumber(x / y)
		case "%":
			// the manual: a % b == a - math.floor(a/b)*b, i.e. the remainder with the sign of the
			// divisor. Stated over C fmod (an uninterpreted function for symbolic operands, the
			// same symbol the implementation's math.Mod becomes), so that only the sign rule and
			// the operand order are compared, not the rounding of fmod itself.
			m := math.Mod(x, y)
			if m != 0 && (m < 0) != (y < 0) {
				m += y
			}
			return LNumber(m)
		case "^":
			return LNumber(math.Pow(x, y))
		}
	}
	ev := map[string]string{"+": "__add", "-": "__sub", "*": "__mul", "/": "__div", "%": "__mod", "^": "__pow"}[op]
	h := r.metaEvent(a, ev)
	if h == rval(LNil) {
		h = r.metaEvent(b, ev)
	}
	if h == rval(LNil) {
		r.fail("attempt to perform arithmetic")
	}
	return first(r.call(h, []rval{a, b}))
}

func first(vs []rval) rval {
	if len(vs) == 0 {
		return LNil
	}
	return vs[0]
}

func (r *rlua) concat(a, b rval) rval {
	_, as := a.(LString)
	_, an := a.(LNumber)
	_, bs := b.(LString)
	_, bn := b.(LNumber)
	if (as || an) && (bs || bn) {
		return LString(r.tostr(a) + r.tostr(b))
	}
	h := r.metaEvent(a, "__concat")
	if h == rval(LNil) {
		h = r.metaEvent(b, "__concat")
	}
	if h == rval(LNil) {
		r.fail("attempt to concatenate")
	}
	return first(r.call(h, []rval{a, b}))
}

func (r *rlua) tostr(v rval) string {
	switch x := v.(type) {
	case LString:
		return string(x)
	case LNumber:
		return rnum2str(float64(x))
	}
	r.fail("string expected")
	return ""
}

func (r *rlua) eq(a, b rval) bool {
	if rtype(a) != rtype(b) {
		return false
	}
	if rraweq(a, b) {
		return true
	}
	ta, ok1 := a.(*rtable)
	tb, ok2 := b.(*rtable)
	if !ok1 || !ok2 {
		return false
	}
	h1, h2 := r.metaEvent(ta, "__eq"), r.metaEvent(tb, "__eq")
	if h1 == rval(LNil) || !rraweq(h1, h2) {
		return false
	}
	return rtruthy(first(r.call(h1, []rval{a, b})))
}

func (r *rlua) lt(a, b rval) bool {
	if x, ok := a.(LNumber); ok {
		if y, ok := b.(LNumber); ok {
			return float64(x) < float64(y)
		}
	}
	if x, ok := a.(LString); ok {
		if y, ok := b.(LString); ok {
			return string(x) < string(y)
		}
	}
	h1, h2 := r.metaEvent(a, "__lt"), r.metaEvent(b, "__lt")
	if h1 == rval(LNil) || !rraweq(h1, h2) {
		r.fail("attempt to compare")
	}
	return rtruthy(first(r.call(h1, []rval{a, b})))
}

func (r *rlua) le(a, b rval) bool {
	if x, ok := a.(LNumber); ok {
		if y, ok := b.(LNumber); ok {
			return float64(x) <= float64(y)
		}
	}
	if x, ok := a.(LString); ok {
		if y, ok := b.(LString); ok {
			return string(x) <= string(y)
		}
	}
	h1, h2 := r.metaEvent(a, "__le"), r.metaEvent(b, "__le")
	if h1 != rval(LNil) && rraweq(h1, h2) {
		return rtruthy(first(r.call(h1, []rval{a, b})))
	}
	h1, h2 = r.metaEvent(a, "__lt"), r.metaEvent(b, "__lt")
	if h1 != rval(LNil) && rraweq(h1, h2) {
		return !rtruthy(first(r.call(h1, []rval{b, a})))
	}
	r.fail("attempt to compare")
	return false
}

func (r *rlua) index(o, k rval) rval {
	for loop := 0; loop < 100; loop++ {
		var h rval
		if t, ok := o.(*rtable); ok {
			v := t.rawget(k)
			if v != rval(LNil) {
				return v
			}
			h = r.metaEvent(t, "__index")
			if h == rval(LNil) {
				return LNil
			}
		} else {
			h = r.metaEvent(o, "__index")
			if h == rval(LNil) {
				r.fail("attempt to index a " + rtype(o) + " value")
			}
		}
		if isCallable(h) {
			return first(r.call(h, []rval{o, k}))
		}
		o = h
	}
	r.fail("loop in gettable")
	return nil
}

func isCallable(v rval) bool {
	switch v.(type) {
	case *rfunc, *rbuiltin:
		return true
	}
	return false
}

func (r *rlua) setindex(o, k, v rval) {
	for loop := 0; loop < 100; loop++ {
		var h rval
		if t, ok := o.(*rtable); ok {
			if t.rawget(k) != rval(LNil) {
				t.rawset(k, v)
				return
			}
			h = r.metaEvent(t, "__newindex")
			if h == rval(LNil) {
				if k == rval(LNil) {
					r.fail("table index is nil")
				}
				if n, ok := k.(LNumber); ok && float64(n) != float64(n) {
					r.fail("table index is NaN")
				}
				t.rawset(k, v)
				return
			}
		} else {
			h = r.metaEvent(o, "__newindex")
			if h == rval(LNil) {
				r.fail("attempt to index a " + rtype(o) + " value")
			}
		}
		if isCallable(h) {
			r.call(h, []rval{o, k, v})
			return
		}
		o = h
	}
	r.fail("loop in settable")
}

func (r *rlua) call(f rval, args []rval) []rval {
	r.tick()
	// activation records for getfenv/setfenv levels: one entry per active call, nil for a builtin
	n := len(r.frames)
	defer func() { r.frames = r.frames[:n] }()
	switch fn := f.(type) {
	case *rbuiltin:
		r.frames = append(r.frames, nil)
		return fn.fn(r, args)
	case *rfunc:
		r.frames = append(r.frames, fn)
		env := &renv{parent: fn.env, plimit: fn.envLim}
		names := fn.par.Names
		if fn.self {
			names = append([]string{"self"}, names...)
		}
		for i, n := range names {
			if i < len(args) {
				env.declare(n, args[i])
			} else {
				env.declare(n, LNil)
			}
		}
		var varargs []rval
		if fn.par.HasVargs && len(args) > len(names) {
			varargs = args[len(names):]
		}
		if fn.par.HasVargs && !fn.main {
			// LUA_COMPAT_VARARG: the hidden local `arg` holds the extra arguments and their count
			at := r.newTable()
			for i, v := range varargs {
				at.rawset(LNumber(i+1), v)
			}
			at.rawset(LString("n"), LNumber(len(varargs)))
			env.declare("arg", at)
		}
		c := r.block(fn.body, env, fn, varargs)
		switch c.kind {
		case ctlReturn:
			return c.vals
		case ctlGoto:
			r.fail("no visible label for goto")
		}
		return nil
	}
	h := r.metaEvent(f, "__call")
	if h == rval(LNil) {
		r.fail("attempt to call a " + rtype(f) + " value")
	}
	return r.call(h, append([]rval{f}, args...))
}

// ---- statements ----

func (r *rlua) block(stmts []ast.Stmt, env *renv, fn *rfunc, va []rval) rctl {
	i := 0
	for i < len(stmts) {
		c := r.stmt(stmts[i], env, fn, va)
		switch c.kind {
		case ctlNone:
			i++
		case ctlGoto:
			found := -1
			for j, s := range stmts {
				if l, ok := s.(*ast.LabelStmt); ok && l.Name == c.label {
					found = j
				}
			}
			if found < 0 {
				return c
			}
			// jumping backwards re-enters the scope of the label: locals declared after it are new
			i = found + 1
		default:
			return c
		}
	}
	return rctl{}
}

func (r *rlua) stmt(s ast.Stmt, env *renv, fn *rfunc, va []rval) rctl {
	r.tick()
	switch st := s.(type) {
	case *ast.LocalAssignStmt:
		if len(st.Names) == 1 && len(st.Exprs) == 1 {
			if fe, ok := st.Exprs[0].(*ast.FunctionExpr); ok {
				// the parser renders `local function f` as this shape: the name is in scope in
				// the body (the AST cannot tell it from `local f = function`, see DESIGN 14.3)
				env.declare(st.Names[0], LNil)
				env.cells[len(env.cells)-1].v = r.closure(fe, env, fn)
				return rctl{}
			}
		}
		vals := r.exprList(st.Exprs, env, fn, va, len(st.Names))
		for i, n := range st.Names {
			env.declare(n, vals[i])
		}
	case *ast.AssignStmt:
		// evaluate all left-hand prefixes and keys, then all right-hand sides, then store
		type target struct {
			cell *rcell
			name string
			obj  rval
			key  rval
		}
		ts := make([]target, len(st.Lhs))
		for i, l := range st.Lhs {
			switch lx := l.(type) {
			case *ast.IdentExpr:
				ts[i] = target{cell: env.lookup(lx.Value), name: lx.Value}
			case *ast.AttrGetExpr:
				ts[i] = target{obj: r.expr1(lx.Object, env, fn, va), key: r.expr1(lx.Key, env, fn, va)}
			}
		}
		vals := r.exprList(st.Rhs, env, fn, va, len(st.Lhs))
		for i, t := range ts {
			switch {
			case t.cell != nil:
				t.cell.v = vals[i]
			case t.obj != nil:
				r.setindex(t.obj, t.key, vals[i])
			default:
				r.setindex(fn.fenv, LString(t.name), vals[i])
			}
		}
	case *ast.FuncCallStmt:
		r.exprMulti(st.Expr, env, fn, va)
	case *ast.DoBlockStmt:
		return r.block(st.Stmts, newEnv(env), fn, va)
	case *ast.WhileStmt:
		for rtruthy(r.expr1(st.Condition, env, fn, va)) {
			c := r.block(st.Stmts, newEnv(env), fn, va)
			if c.kind == ctlBreak {
				break
			}
			if c.kind != ctlNone {
				return c
			}
		}
	case *ast.RepeatStmt:
		for {
			inner := newEnv(env)
			c := r.block(st.Stmts, inner, fn, va)
			if c.kind == ctlBreak {
				break
			}
			if c.kind != ctlNone {
				return c
			}
			if rtruthy(r.expr1(st.Condition, inner, fn, va)) { // the condition sees the body's locals
				break
			}
		}
	case *ast.IfStmt:
		if rtruthy(r.expr1(st.Condition, env, fn, va)) {
			return r.block(st.Then, newEnv(env), fn, va)
		}
		return r.block(st.Else, newEnv(env), fn, va)
	case *ast.NumberForStmt:
		init, ok1 := r.expr1(st.Init, env, fn, va).(LNumber)
		limit, ok2 := r.expr1(st.Limit, env, fn, va).(LNumber)
		step := LNumber(1)
		ok3 := true
		if st.Step != nil {
			step, ok3 = r.expr1(st.Step, env, fn, va).(LNumber)
		}
		if !ok1 || !ok2 || !ok3 {
			r.fail("'for' value must be a number")
		}
		idx := float64(init) - float64(step) // lvm.c OP_FORPREP
		for {
			r.tick()
			idx += float64(step)
			if float64(step) > 0 {
				if !(idx <= float64(limit)) {
					break
				}
			} else if !(float64(limit) <= idx) {
				break
			}
			inner := newEnv(env)
			inner.declare(st.Name, LNumber(idx))
			c := r.block(st.Stmts, inner, fn, va)
			if c.kind == ctlBreak {
				break
			}
			if c.kind != ctlNone {
				return c
			}
		}
	case *ast.GenericForStmt:
		vals := r.exprList(st.Exprs, env, fn, va, 3)
		f, s, ctl := vals[0], vals[1], vals[2]
		for {
			r.tick()
			rs := r.call(f, []rval{s, ctl})
			rs = adjust(rs, len(st.Names))
			if rs[0] == rval(LNil) {
				break
			}
			ctl = rs[0]
			inner := newEnv(env)
			for i, n := range st.Names {
				inner.declare(n, rs[i])
			}
			c := r.block(st.Stmts, inner, fn, va)
			if c.kind == ctlBreak {
				break
			}
			if c.kind != ctlNone {
				return c
			}
		}
	case *ast.FuncDefStmt:
		f := r.closure(st.Func, env, fn)
		if st.Name.Func != nil {
			r.assignTo(st.Name.Func, f, env, fn, va)
		} else {
			f.self = true
			obj := r.expr1(st.Name.Receiver, env, fn, va)
			r.setindex(obj, LString(st.Name.Method), f)
		}
	case *ast.ReturnStmt:
		return rctl{kind: ctlReturn, vals: r.exprList(st.Exprs, env, fn, va, -1)}
	case *ast.BreakStmt:
		return rctl{kind: ctlBreak}
	case *ast.LabelStmt:
	case *ast.GotoStmt:
		return rctl{kind: ctlGoto, label: st.Label}
	default:
		VAbort("R-lua: statement kind not modelled")
	}
	return rctl{}
}

func (r *rlua) assignTo(l ast.Expr, v rval, env *renv, fn *rfunc, va []rval) {
	switch lx := l.(type) {
	case *ast.IdentExpr:
		if c := env.lookup(lx.Value); c != nil {
			c.v = v
		} else {
			r.setindex(fn.fenv, LString(lx.Value), v)
		}
	case *ast.AttrGetExpr:
		r.setindex(r.expr1(lx.Object, env, fn, va), r.expr1(lx.Key, env, fn, va), v)
	}
}

func (r *rlua) closure(fe *ast.FunctionExpr, env *renv, fn *rfunc) *rfunc {
	r.nextID++
	return &rfunc{par: fe.ParList, body: fe.Stmts, env: env, envLim: len(env.names), fenv: fn.fenv, id: r.nextID}
}

func adjust(vs []rval, n int) []rval {
	if n < 0 {
		return vs
	}
	out := make([]rval, n)
	for i := range out {
		if i < len(vs) {
			out[i] = vs[i]
		} else {
			out[i] = LNil
		}
	}
	return out
}

// exprList evaluates an expression list with the last expression expanded, adjusted to n values
// (n < 0: all values).
func (r *rlua) exprList(es []ast.Expr, env *renv, fn *rfunc, va []rval, n int) []rval {
	var out []rval
	for i, e := range es {
		if i == len(es)-1 {
			out = append(out, r.exprMulti(e, env, fn, va)...)
		} else {
			out = append(out, r.expr1(e, env, fn, va))
		}
	}
	return adjust(out, n)
}

func (r *rlua) expr1(e ast.Expr, env *renv, fn *rfunc, va []rval) rval {
	return first(r.exprMulti(e, env, fn, va))
}

func (r *rlua) exprMulti(e ast.Expr, env *renv, fn *rfunc, va []rval) []rval {
	r.tick()
	switch ex := e.(type) {
	case *ast.NilExpr:
		return []rval{LNil}
	case *ast.TrueExpr:
		return []rval{LTrue}
	case *ast.FalseExpr:
		return []rval{LFalse}
	case *ast.NumberExpr:
		ok, v, cat := refNumeral(ex.Value)
		if !ok || cat == "exponent out of the modelled range" {
			// refNumeral reports such a numeral as accepted with a placeholder value 0: its value is not modelled
			VAbort("R-lua: numeral outside the modelled fragment: " + ex.Value)
		}
		return []rval{LNumber(v)}
	case *constLValueExpr:
		return []rval{ex.Value}
	case *ast.StringExpr:
		return []rval{LString(ex.Value)}
	case *ast.Comma3Expr:
		if ex.AdjustRet {
			return []rval{first(va)}
		}
		return va
	case *ast.IdentExpr:
		if c := env.lookup(ex.Value); c != nil {
			return []rval{c.v}
		}
		return []rval{r.index(fn.fenv, LString(ex.Value))}
	case *ast.AttrGetExpr:
		return []rval{r.index(r.expr1(ex.Object, env, fn, va), r.expr1(ex.Key, env, fn, va))}
	case *ast.TableExpr:
		t := r.newTable()
		pos := 1
		for i, f := range ex.Fields {
			if f.Key != nil {
				k := r.expr1(f.Key, env, fn, va)
				v := r.expr1(f.Value, env, fn, va)
				if k == rval(LNil) {
					r.fail("table index is nil")
				}
				t.rawset(k, v)
				continue
			}
			if i == len(ex.Fields)-1 {
				for _, v := range r.exprMulti(f.Value, env, fn, va) {
					t.rawset(LNumber(pos), v)
					pos++
				}
			} else {
				t.rawset(LNumber(pos), r.expr1(f.Value, env, fn, va))
				pos++
			}
		}
		return []rval{t}
	case *ast.FuncCallExpr:
		var f rval
		var args []rval
		if ex.Func != nil {
			f = r.expr1(ex.Func, env, fn, va)
		} else {
			obj := r.expr1(ex.Receiver, env, fn, va)
			f = r.index(obj, LString(ex.Method))
			args = append(args, obj)
		}
		args = append(args, r.exprList(ex.Args, env, fn, va, -1)...)
		rs := r.call(f, args)
		if ex.AdjustRet {
			return []rval{first(rs)}
		}
		return rs
	case *ast.LogicalOpExpr:
		l := r.expr1(ex.Lhs, env, fn, va)
		if ex.Operator == "and" {
			if !rtruthy(l) {
				return []rval{l}
			}
		} else if rtruthy(l) {
			return []rval{l}
		}
		return []rval{r.expr1(ex.Rhs, env, fn, va)}
	case *ast.RelationalOpExpr:
		a := r.expr1(ex.Lhs, env, fn, va)
		b := r.expr1(ex.Rhs, env, fn, va)
		var res bool
		switch ex.Operator {
		case "==":
			res = r.eq(a, b)
		case "~=":
			res = !r.eq(a, b)
		case "<":
			res = r.lt(a, b)
		case "<=":
			res = r.le(a, b)
		case ">":
			res = r.lt(b, a)
		case ">=":
			res = r.le(b, a)
		}
		return []rval{LBool(res)}
	case *ast.StringConcatOpExpr:
		// right associative: a .. (b .. c); operands are evaluated left to right
		a := r.expr1(ex.Lhs, env, fn, va)
		b := r.expr1(ex.Rhs, env, fn, va)
		return []rval{r.concat(a, b)}
	case *ast.ArithmeticOpExpr:
		a := r.expr1(ex.Lhs, env, fn, va)
		b := r.expr1(ex.Rhs, env, fn, va)
		return []rval{r.arith(ex.Operator, a, b)}
	case *ast.UnaryMinusOpExpr:
		a := r.expr1(ex.Expr, env, fn, va)
		if x, ok := rtonumber(a); ok {
			return []rval{LNumber(-x)}
		}
		h := r.metaEvent(a, "__unm")
		if h == rval(LNil) {
			r.fail("attempt to perform arithmetic")
		}
		return []rval{first(r.call(h, []rval{a, a}))}
	case *ast.UnaryNotOpExpr:
		return []rval{LBool(!rtruthy(r.expr1(ex.Expr, env, fn, va)))}
	case *ast.UnaryLenOpExpr:
		a := r.expr1(ex.Expr, env, fn, va)
		switch x := a.(type) {
		case LString:
			return []rval{LNumber(len(x))}
		case *rtable:
			return []rval{LNumber(x.length())}
		}
		r.fail("attempt to get length")
	case *ast.FunctionExpr:
		return []rval{r.closure(ex, env, fn)}
	}
	VAbort("R-lua: expression kind not modelled")
	return nil
}

// ---- builtins ----

func newRlua() *rlua {
	r := &rlua{}
	r.globals = r.newTable()
	reg := func(name string, f func(r *rlua, args []rval) []rval) {
		r.globals.rawset(LString(name), &rbuiltin{name, f})
	}
	arg := func(args []rval, i int) rval {
		if i < len(args) {
			return args[i]
		}
		return LNil
	}
	reg("emit", func(r *rlua, args []rval) []rval {
		r.trace = append(r.trace, rsep{})
		r.trace = append(r.trace, args...)
		return nil
	})
	reg("type", func(r *rlua, args []rval) []rval {
		if len(args) == 0 {
			r.fail("bad argument #1 to 'type'")
		}
		return []rval{LString(rtype(args[0]))}
	})
	reg("error", func(r *rlua, args []rval) []rval {
		// the level only selects the position prefix of string messages, but it is type-checked first
		if len(args) > 1 && args[1] != rval(LNil) {
			if _, ok := rtonumber(args[1]); !ok {
				r.fail("bad argument #2 to 'error' (number expected)")
			}
		}
		panic(rerror{arg(args, 0)})
	})
	reg("assert", func(r *rlua, args []rval) []rval {
		if !rtruthy(arg(args, 0)) {
			if len(args) > 1 {
				panic(rerror{args[1]})
			}
			r.fail("assertion failed!")
		}
		return args
	})
	reg("pcall", func(r *rlua, args []rval) (out []rval) {
		if len(args) == 0 {
			r.fail("bad argument #1 to 'pcall'")
		}
		defer func() {
			if x := recover(); x != nil {
				if e, ok := x.(rerror); ok {
					out = []rval{LFalse, e.v}
					return
				}
				panic(x)
			}
		}()
		return append([]rval{LTrue}, r.call(args[0], args[1:])...)
	})
	reg("xpcall", func(r *rlua, args []rval) (out []rval) {
		if len(args) < 2 {
			r.fail("bad argument #2 to 'xpcall'")
		}
		defer func() {
			if x := recover(); x != nil {
				if e, ok := x.(rerror); ok {
					// the handler runs once with the error value; its first result is returned.  A handler that
					// raises in turn makes xpcall return false with an implementation-defined second value
					// (templates observe only the boolean in that case).
					func() {
						defer func() {
							if y := recover(); y != nil {
								if e2, ok := y.(rerror); ok {
									out = []rval{LFalse, e2.v}
									return
								}
								panic(y)
							}
						}()
						out = []rval{LFalse, first(r.call(args[1], []rval{e.v}))}
					}()
					return
				}
				panic(x)
			}
		}()
		return append([]rval{LTrue}, r.call(args[0], nil)...)
	})
	// getfenv/setfenv (manual 5.1): a function argument names that function; a level n >= 1 names the function
	// n activations above this builtin (1 = the caller); level 0 is the global environment.
	fenvTarget := func(r *rlua, a rval, what string) *rfunc {
		switch x := a.(type) {
		case *rfunc:
			return x
		case LNumber:
			lv := int(x)
			if lv < 0 {
				r.fail("bad argument #1 to '" + what + "' (level must be non-negative)")
			}
			idx := len(r.frames) - 1 - lv
			if lv == 0 || idx < 0 || r.frames[idx] == nil {
				return nil
			}
			return r.frames[idx]
		}
		return nil
	}
	reg("getfenv", func(r *rlua, args []rval) []rval {
		var a rval = LNumber(1)
		if len(args) > 0 && args[0] != rval(LNil) {
			a = args[0]
		}
		if _, isB := a.(*rbuiltin); isB {
			return []rval{r.globals}
		}
		if n, ok := a.(LNumber); ok && n == 0 {
			return []rval{r.globals}
		}
		f := fenvTarget(r, a, "getfenv")
		if f == nil {
			r.fail("bad argument #1 to 'getfenv' (invalid level)")
		}
		return []rval{f.fenv}
	})
	reg("setfenv", func(r *rlua, args []rval) []rval {
		t, ok := arg(args, 1).(*rtable)
		if !ok {
			r.fail("bad argument #2 to 'setfenv' (table expected)")
		}
		f := fenvTarget(r, arg(args, 0), "setfenv")
		if f == nil {
			r.fail("'setfenv' cannot change environment of given object")
		}
		f.fenv = t
		return []rval{f}
	})
	reg("select", func(r *rlua, args []rval) []rval {
		if s, ok := arg(args, 0).(LString); ok && s == "#" {
			return []rval{LNumber(len(args) - 1)}
		}
		n, ok := arg(args, 0).(LNumber)
		if !ok {
			r.fail("bad argument #1 to 'select'")
		}
		i := int(n)
		if i < 0 {
			i = len(args) + i
		} else if i > len(args)-1 {
			i = len(args)
		}
		if i < 1 {
			r.fail("bad argument #1 to 'select' (index out of range)")
		}
		return args[i:]
	})
	reg("unpack", func(r *rlua, args []rval) []rval {
		t, ok := arg(args, 0).(*rtable)
		if !ok {
			r.fail("bad argument #1 to 'unpack'")
		}
		i, j := 1, t.length()
		if x, ok := arg(args, 1).(LNumber); ok {
			i = int(x)
		}
		if x, ok := arg(args, 2).(LNumber); ok {
			j = int(x)
		}
		var out []rval
		for k := i; k <= j; k++ {
			out = append(out, t.rawget(LNumber(k)))
		}
		return out
	})
	reg("rawget", func(r *rlua, args []rval) []rval {
		t, ok := arg(args, 0).(*rtable)
		if !ok {
			r.fail("bad argument #1 to 'rawget'")
		}
		return []rval{t.rawget(arg(args, 1))}
	})
	reg("rawset", func(r *rlua, args []rval) []rval {
		t, ok := arg(args, 0).(*rtable)
		if !ok {
			r.fail("bad argument #1 to 'rawset'")
		}
		t.rawset(arg(args, 1), arg(args, 2))
		return []rval{t}
	})
	reg("rawequal", func(r *rlua, args []rval) []rval {
		return []rval{LBool(rraweq(arg(args, 0), arg(args, 1)))}
	})
	reg("setmetatable", func(r *rlua, args []rval) []rval {
		t, ok := arg(args, 0).(*rtable)
		if !ok {
			r.fail("bad argument #1 to 'setmetatable'")
		}
		if r.metaEvent(t, "__metatable") != rval(LNil) {
			r.fail("cannot change a protected metatable")
		}
		switch m := arg(args, 1).(type) {
		case *rtable:
			t.meta = m
		case *LNilType:
			t.meta = nil
		default:
			r.fail("bad argument #2 to 'setmetatable'")
		}
		return []rval{t}
	})
	reg("getmetatable", func(r *rlua, args []rval) []rval {
		m := r.metaOf(arg(args, 0))
		if m == nil {
			return []rval{LNil}
		}
		if p := m.rawget(LString("__metatable")); p != rval(LNil) {
			return []rval{p}
		}
		return []rval{m}
	})
	next := &rbuiltin{"next", func(r *rlua, args []rval) []rval {
		t, ok := arg(args, 0).(*rtable)
		if !ok {
			r.fail("bad argument #1 to 'next'")
		}
		k := arg(args, 1)
		if k == rval(LNil) {
			if len(t.keys) == 0 {
				return []rval{LNil}
			}
			return []rval{t.keys[0], t.vals[0]}
		}
		for i := range t.keys {
			if rraweq(t.keys[i], k) {
				if i+1 < len(t.keys) {
					return []rval{t.keys[i+1], t.vals[i+1]}
				}
				return []rval{LNil}
			}
		}
		r.fail("invalid key to 'next'")
		return nil
	}}
	r.globals.rawset(LString("next"), next)
	reg("pairs", func(r *rlua, args []rval) []rval {
		if _, ok := arg(args, 0).(*rtable); !ok {
			r.fail("bad argument #1 to 'pairs'")
		}
		return []rval{next, args[0], LNil}
	})
	ipairsAux := &rbuiltin{"ipairsaux", func(r *rlua, args []rval) []rval {
		t := args[0].(*rtable)
		i := int(args[1].(LNumber)) + 1
		v := t.rawget(LNumber(i))
		if v == rval(LNil) {
			return []rval{LNil}
		}
		return []rval{LNumber(i), v}
	}}
	reg("ipairs", func(r *rlua, args []rval) []rval {
		if _, ok := arg(args, 0).(*rtable); !ok {
			r.fail("bad argument #1 to 'ipairs'")
		}
		return []rval{ipairsAux, args[0], LNumber(0)}
	})
	// tostring (lbaselib.c luaB_tostring): __tostring from the metatable by a raw look-up, called with the value;
	// otherwise the primitive spellings.  Tables and functions have an address-based spelling that no template
	// may observe directly (it is returned as a fixed marker).
	reg("tostring", func(r *rlua, args []rval) []rval {
		if len(args) == 0 {
			r.fail("bad argument #1 to 'tostring' (value expected)")
		}
		v := args[0]
		if h := r.metaEvent(v, "__tostring"); h != rval(LNil) {
			return []rval{first(r.call(h, []rval{v}))}
		}
		switch x := v.(type) {
		case LString:
			return []rval{x}
		case LNumber:
			return []rval{LString(rnum2str(float64(x)))}
		case LBool:
			if bool(x) {
				return []rval{LString("true")}
			}
			return []rval{LString("false")}
		case *LNilType:
			return []rval{LString("nil")}
		}
		return []rval{LString("<address-based spelling>")}
	})
	reg("tonumber", func(r *rlua, args []rval) []rval {
		if v, ok := rtonumber(arg(args, 0)); ok {
			return []rval{LNumber(v)}
		}
		return []rval{LNil}
	})
	r.globals.rawset(LString("_G"), r.globals)
	return r
}

// run evaluates a parsed chunk; returns the chunk's results, or the error value.
func (r *rlua) run(chunk []ast.Stmt, args []rval) (results []rval, errv rval, failed bool) {
	defer func() {
		if x := recover(); x != nil {
			if e, ok := x.(rerror); ok {
				errv, failed = e.v, true
				return
			}
			if _, ok := x.(rTooLong); ok {
				r.tooLong = true
				return
			}
			panic(x)
		}
	}()
	r.nextID++
	main := &rfunc{par: &ast.ParList{HasVargs: true}, body: chunk, fenv: r.globals, id: r.nextID, main: true}
	return r.call(main, args), nil, false
}
