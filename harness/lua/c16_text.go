//go:build verif

package lua

// ---- C16: numerals — the three readers (tonumber, arithmetic coercion, lexer) against R-num ----

func isDig(c byte) bool   { return c >= '0' && c <= '9' }
func isHexD(c byte) bool  { return isDig(c) || (c >= 'a' && c <= 'f') || (c >= 'A' && c <= 'F') }
func isBlank(c byte) bool { return c == ' ' || (c >= 9 && c <= 13) }

func hexVal(c byte) int {
	switch {
	case isDig(c):
		return int(c - '0')
	case c >= 'a':
		return int(c-'a') + 10
	}
	return int(c-'A') + 10
}

var pow10tab = []float64{1, 10, 100, 1000, 1e4, 1e5, 1e6, 1e7, 1e8, 1e9, 1e10, 1e11, 1e12}

// refNumeral: acceptor and value for `blanks* (0[xX]hex+ | dec) blanks*`, dec = (d+[.d*] | .d+)([eE][+-]?d+)?
// Concrete control flow on the bytes (the engine forks on each class test).
func refNumeral(s string) (ok bool, val float64, category string) {
	i, j := 0, len(s)
	weird := false
	for i < j && isBlank(s[i]) {
		if s[i] == 11 || s[i] == 12 || s[i] == 13 {
			weird = true
		}
		i++
	}
	for j > i && isBlank(s[j-1]) {
		if s[j-1] == 11 || s[j-1] == 12 || s[j-1] == 13 {
			weird = true
		}
		j--
	}
	t := s[i:j]
	cat := "plain"
	if weird {
		cat = "blank is CR/VT/FF"
	}
	if len(t) == 0 {
		return false, 0, "empty"
	}
	for k := 0; k < len(t); k++ {
		if t[k] == '_' {
			return false, 0, "underscore"
		}
	}
	if t[0] == '+' || t[0] == '-' {
		return false, 0, "signed"
	}
	if len(t) == 3 {
		l0, l1, l2 := t[0]|0x20, t[1]|0x20, t[2]|0x20
		if (l0 == 'i' && l1 == 'n' && l2 == 'f') || (l0 == 'n' && l1 == 'a' && l2 == 'n') {
			return false, 0, "inf/nan word"
		}
	}
	if len(t) >= 2 && t[0] == '0' && (t[1] == 'x' || t[1] == 'X') {
		if len(t) == 2 {
			return false, 0, "hex without digits"
		}
		v := 0
		for k := 2; k < len(t); k++ {
			if !isHexD(t[k]) {
				return false, 0, "hex with trailing garbage"
			}
			v = v*16 + hexVal(t[k])
		}
		if weird {
			return true, float64(v), cat
		}
		return true, float64(v), "hex"
	}
	if len(t) >= 2 && t[0] == '0' && (t[1] == 'b' || t[1] == 'B' || t[1] == 'o' || t[1] == 'O') {
		return false, 0, "go prefix 0b/0o"
	}
	// decimal
	k := 0
	mant, nd, frac := 0, 0, 0
	for k < len(t) && isDig(t[k]) {
		mant = mant*10 + int(t[k]-'0')
		nd++
		k++
	}
	intDigits := nd
	if k < len(t) && t[k] == '.' {
		k++
		for k < len(t) && isDig(t[k]) {
			mant = mant*10 + int(t[k]-'0')
			nd++
			frac++
			k++
		}
	}
	if nd == 0 {
		return false, 0, "not a numeral"
	}
	exp, hasExp := 0, false
	if k < len(t) && (t[k] == 'e' || t[k] == 'E') {
		hasExp = true
		k++
		neg := false
		if k < len(t) && (t[k] == '+' || t[k] == '-') {
			neg = t[k] == '-'
			k++
		}
		ed := 0
		for k < len(t) && isDig(t[k]) {
			exp = exp*10 + int(t[k]-'0')
			ed++
			k++
		}
		if ed == 0 {
			return false, 0, "exponent without digits"
		}
		if neg {
			exp = -exp
		}
	}
	if k != len(t) {
		return false, 0, "not a numeral"
	}
	e := exp - frac
	var v float64
	switch {
	case e >= 0 && e < len(pow10tab):
		v = float64(mant) * pow10tab[e]
	case e < 0 && -e < len(pow10tab):
		v = float64(mant) / pow10tab[-e]
	default:
		return true, 0, "exponent out of the modelled range"
	}
	if !weird {
		switch {
		case hasExp && frac == 0 && intDigits == nd && !containsByte(t, '.'):
			cat = "exponent without a dot"
		case intDigits >= 2 && t[0] == '0' && frac == 0 && !hasExp && !containsByte(t, '.'):
			cat = "integer with leading zero"
		case intDigits >= 2 && t[0] == '0':
			cat = "leading zero, fraction or exponent"
		}
	}
	return true, v, cat
}

func containsByte(s string, c byte) bool {
	for i := 0; i < len(s); i++ {
		if s[i] == c {
			return true
		}
	}
	return false
}

// C16.numeral — tonumber and arithmetic coercion agree with R-num on every short string.
//
//verif:harness prop=C16 tier=quick qparams=n:2 tparams=n:3 bounds="every byte string of length <= n (2 quick / 3 thorough; at length 3 only bytes < 0x80); R-num: blanks* (0x hex+ | decimal with optional fraction/exponent) blanks*; signed strings only checked for agreement of the two readers"
func H_C16_numeral() {
	n := VChoice(VParam("n", 2) + 1)
	s := VStr("s", n)
	if n >= 3 {
		for i := 0; i < n; i++ {
			VAssume(s[i] < 0x80) // 3-byte strings: ASCII only (bytes >= 0x80 are covered for lengths <= 2)
		}
	}
	L := newL(Options{}, BaseLibName)
	ok, val, cat := refNumeral(s)
	// reader 1: tonumber
	L.Push(L.GetGlobal("tonumber"))
	L.Push(LString(s))
	err := L.PCall(1, 1, nil)
	VAssert(err == nil, "numeral: tonumber never raises")
	tn, tnOK := L.Get(-1).(LNumber)
	// reader 2: coercion used by arithmetic and by the compiler for numeric literals
	pn, perr := parseNumber(s)
	pnOK := perr == nil
	if cat == "signed" || cat == "exponent out of the modelled range" {
		VReach("end")
		return
	}
	VAssert(tnOK == ok, "numeral: tonumber accepts exactly the numerals ["+cat+"]")
	VAssert(pnOK == ok, "numeral: coercion accepts exactly the numerals ["+cat+"]")
	if ok && tnOK {
		VAssert(VEqF(float64(tn), val), "numeral: tonumber value ["+cat+"]")
	}
	if ok && pnOK {
		VAssert(VEqF(float64(pn), val), "numeral: coercion value ["+cat+"]")
	}
	// reader 3: the lexer/compiler, on strings that are a single alphanumeric token
	single := n > 0
	for i := 0; i < n; i++ {
		c := s[i]
		if !(isDig(c) || (c|0x20 >= 'a' && c|0x20 <= 'z') || c == '.' || c == '_') {
			single = false
		}
	}
	if single && (isDig(s[0]) || (s[0] == '.' && n > 1 && isDig(s[1]))) {
		fn, lerr := L.Load(&symReader{buf: []byte("return " + s)}, "n")
		VAssert((lerr == nil) == ok, "numeral: the lexer accepts exactly the numerals ["+cat+"]")
		if lerr == nil && ok {
			L.Push(fn)
			VAssert(L.PCall(0, 1, nil) == nil, "numeral: literal chunk runs")
			lv, isNum := L.Get(-1).(LNumber)
			VAssert(isNum, "numeral: literal is a number")
			VAssert(VEqF(float64(lv), val), "numeral: literal value ["+cat+"]")
		}
	}
	VReach("end")
}

// ---- C16: short string literals ----

// refShortString decodes the body of a quoted Lua 5.1 string (llex.c read_string).
func refShortString(body []byte, quote byte) (ok bool, out []byte) {
	i := 0
	for i < len(body) {
		c := body[i]
		switch {
		case c == quote:
			return false, nil // the literal would end here: not a body
		case c == '\n' || c == '\r':
			return false, nil // unfinished string
		case c == '\\':
			i++
			if i >= len(body) {
				return false, nil
			}
			e := body[i]
			switch {
			case e == 'a':
				out = append(out, 7)
			case e == 'b':
				out = append(out, 8)
			case e == 'f':
				out = append(out, 12)
			case e == 'n':
				out = append(out, 10)
			case e == 'r':
				out = append(out, 13)
			case e == 't':
				out = append(out, 9)
			case e == 'v':
				out = append(out, 11)
			case e == '\n' || e == '\r':
				out = append(out, 10)
				// \r\n or \n\r count as one line break
				if i+1 < len(body) && (body[i+1] == '\n' || body[i+1] == '\r') && body[i+1] != e {
					i++
				}
			case isDig(e):
				v := int(e - '0')
				k := 1
				for k < 3 && i+1 < len(body) && isDig(body[i+1]) {
					i++
					v = v*10 + int(body[i]-'0')
					k++
				}
				if v > 255 {
					return false, nil
				}
				out = append(out, byte(v))
			default:
				out = append(out, e) // \\, \", \' and any other character stand for themselves
			}
			i++
		default:
			out = append(out, c)
			i++
		}
	}
	return true, out
}

// C16.strlit — a quoted literal denotes exactly the bytes llex.c reads.
//
//verif:harness prop=C16 tier=quick qparams=n:2 tparams=n:3 bounds="every body of <= n bytes (2 quick / 3 thorough, all 256 values incl. escapes, decimal escapes, CR/LF) between double or single quotes"
func H_C16_strlit() {
	n := VChoice(VParam("n", 2) + 1)
	body := make([]byte, n)
	for i := range body {
		body[i] = VByte("c")
	}
	quote := []byte{'"', '\''}[VChoice(2)]
	ok, want := refShortString(body, quote)
	src := append(append([]byte("return "), quote), body...)
	src = append(src, quote)
	L := newL(Options{}, BaseLibName)
	fn, err := L.Load(&symReader{buf: src}, "s")
	if !ok {
		// not a single well-formed literal: whatever happens, it must not crash (uncaught panics are reported)
		VReach("end")
		return
	}
	VAssert(err == nil, "strlit: a well-formed literal loads")
	L.Push(fn)
	VAssert(L.PCall(0, 1, nil) == nil, "strlit: literal chunk runs")
	got, isStr := L.Get(-1).(LString)
	VAssert(isStr, "strlit: literal is a string")
	VAssert(string(got) == string(want), "strlit: denotes exactly the bytes llex.c reads")
	VReach("end")
}


var c16Pool = []string{"0", "00", "007", "0017", "00017", "010", "0.50", "00.5", "1e2", "1E+2", "1e-2", "0e0", "12.", ".5", "5.e1", "0x10", "0XfF", "0x0a", "0xe", "0xFE", "0x1e2", "0xBEEF", "0Xe0", " 12 ", "\t7\n", "1.5e3", "123456789", "1e10", "3.25", "100", "0.125"}

// C16.pool — longer numeral spellings: the lexer, tonumber and coercion agree with R-num.
//
//verif:harness prop=C16 tier=quick bounds="31 concrete numeral spellings (leading zeros, fraction/exponent forms, hexadecimal, surrounding blanks); readers compared pairwise and with R-num"
func H_C16_pool() {
	s := c16Pool[VChoice(len(c16Pool))]
	ok, val, cat := refNumeral(s)
	VAssert(ok, "pool: R-num accepts the spelling "+s)
	L := newL(Options{}, BaseLibName)
	out, err := callLib(L, "_G", "tonumber", 1, LString(s))
	VAssert(err == nil, "pool: tonumber does not raise")
	known := cat == "exponent without a dot" || cat == "integer with leading zero" || cat == "leading zero, fraction or exponent"
	if !known {
		VAssert(sameValue(out[0], LNumber(val)), "pool: tonumber value of "+s)
		pn, perr := parseNumber(s)
		VAssert(perr == nil && VEqF(float64(pn), val), "pool: coercion value of "+s)
	}
	trimmed := true
	for i := 0; i < len(s); i++ {
		if isBlank(s[i]) {
			trimmed = false
		}
	}
	if trimmed {
		VAssert(loadRun(L, "return "+s, 1) == nil, "pool: literal loads: "+s)
		VAssert(sameValue(L.Get(-1), LNumber(val)), "pool: literal value of "+s)
	}
	VReach("end")
}


var c16Values = []float64{0, 1, -1, 7, 123, -456, 1e15, 999999999999999, 1125899906842624, 9007199254740991, -9007199254740991, 4503599627370496, 0.5, -0.25, 3.25, 1e100, 1.5e-7, 123456.789, 2.5e15 + 0.5}

// C16.tostring — tonumber(tostring(x)) == x, and integral values below 2^53 print without exponent
// or fraction, on a concrete pool (number formatting runs through Go's fmt/strconv natively; the
// values are not symbolic here — stated as such).
//
//verif:harness prop=C16 tier=quick bounds="19 concrete numbers incl. 16-digit integers up to 2^53-1; tostring spelling of integers and the tonumber round trip through the real library; NOT symbolic in the number (fmt/strconv are outside solver reach)"
func H_C16_tostring() {
	x := c16Values[VChoice(len(c16Values))]
	L := newL(Options{}, BaseLibName)
	out, err := callLib(L, "_G", "tostring", 1, LNumber(x))
	VAssert(err == nil, "tostring: no error")
	s, ok := out[0].(LString)
	VAssert(ok, "tostring: string result")
	integral := x == float64(int64(x)) && x < 9007199254740992 && x > -9007199254740992
	if integral {
		plain := len(s) > 0
		for i := 0; i < len(s); i++ {
			c := s[i]
			if !(isDig(c) || (i == 0 && c == '-')) {
				plain = false
			}
		}
		VAssert(plain, "tostring: an integral value below 2^53 prints without exponent or fraction")
	}
	// round trip (tonumber only accepts an exponent when the text has a dot: open finding F13)
	hasExp, hasDot := false, false
	for i := 0; i < len(s); i++ {
		if s[i] == 'e' || s[i] == 'E' {
			hasExp = true
		}
		if s[i] == '.' {
			hasDot = true
		}
	}
	if !hasExp || hasDot {
		back, err := callLib(L, "_G", "tonumber", 1, s)
		VAssert(err == nil && sameValue(back[0], LNumber(x)), "tostring: tonumber(tostring(x)) == x")
	}
	pn, perr := parseNumber(string(s))
	VAssert(perr == nil && float64(pn) == x, "tostring: the coercion of tostring(x) is x")
	VReach("end")
}

// refBaseNumeral is tonumber(s, base) for an explicit base by lbaselib.c (strtoul): blanks, digits of that base
// (letters in either case), blanks.  cat classifies texts whose treatment is reported separately.
func refBaseNumeral(s string, base int) (ok bool, val float64, cat string) {
	isBlank := func(c byte) bool { return c == ' ' || (c >= '\t' && c <= '\r') }
	i, j := 0, len(s)
	for i < j && isBlank(s[i]) {
		i++
	}
	for j > i && isBlank(s[j-1]) {
		j--
	}
	body := s[i:j]
	for k := 0; k < len(body); k++ {
		if body[k] == '.' {
			return false, 0, "text with a dot"
		}
	}
	if len(body) > 0 && (body[0] == '+' || body[0] == '-') {
		return false, 0, "signed"
	}
	if base == 16 && len(body) >= 2 && body[0] == '0' && (body[1] == 'x' || body[1] == 'X') {
		return false, 0, "0x prefix with base 16"
	}
	if len(body) == 0 {
		return false, 0, "empty"
	}
	v := 0.0
	for k := 0; k < len(body); k++ {
		c := body[k]
		d := 99
		switch {
		case c >= '0' && c <= '9':
			d = int(c - '0')
		case c >= 'a' && c <= 'z':
			d = int(c-'a') + 10
		case c >= 'A' && c <= 'Z':
			d = int(c-'A') + 10
		}
		if d >= base {
			return false, 0, "not a digit of the base"
		}
		v = v*float64(base) + float64(d)
	}
	return true, v, "digits of the base"
}

// C16.tonumberbase — tonumber with an explicit base.
//
//verif:harness prop=C16 tier=quick qparams=n:2 tparams=n:3 bounds="every byte string of length <= n (2 quick / 3 thorough; at length 3 ASCII only) x base in {2, 8, 10, 16, 33, 34, 35, 36}; reference: blanks* digit+ blanks* with digits (either case) below the base; signed texts, 0x-prefixed texts in base 16 and fractions in base 10 are not judged"
func H_C16_tonumberbase() {
	n := VChoice(VParam("n", 2) + 1)
	s := VStr("s", n)
	if n >= 3 {
		for i := 0; i < n; i++ {
			VAssume(s[i] < 0x80)
		}
	}
	base := []int{2, 8, 10, 16, 33, 34, 35, 36}[VChoice(8)]
	L := newL(Options{}, BaseLibName)
	ok, val, cat := refBaseNumeral(s, base)
	L.Push(L.GetGlobal("tonumber"))
	L.Push(LString(s))
	L.Push(LNumber(base))
	err := L.PCall(2, 1, nil)
	VAssert(err == nil, "tonumberbase: tonumber never raises for a base in 2..36")
	tn, tnOK := L.Get(-1).(LNumber)
	if cat == "signed" || cat == "0x prefix with base 16" {
		// strtoul accepts a sign (negating as unsigned) and, in base 16, a 0x prefix; the property's wording
		// does not settle either, so these texts are not judged
		VReach("end")
		return
	}
	if base == 10 && cat == "text with a dot" {
		// base 10 is the ordinary reader (fractions allowed): covered by C16.numeral
		VReach("end")
		return
	}
	VAssert(tnOK == ok, "tonumberbase: accepts exactly the digit strings of the base ["+cat+"]")
	if ok && tnOK {
		VAssert(VEqF(float64(tn), val), "tonumberbase: value ["+cat+"]")
	}
	VReach("end")
}
