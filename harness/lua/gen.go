//go:build verif

package lua

import "strings"

// ---- generated program family for the whole-pipeline differential (C01/C02/C03/C05) ----
//
// pgen(seed, k) is the k-th program of family `seed`: concrete program text produced by a small grammar
// (local declarations and multiple assignment over locals / globals / table fields, if/elseif, numeric and
// ipairs loops, while/repeat with counters, break, goto continue, local/global/method functions with fixed
// and variable parameters, calls in every result context, closures capturing loop variables and mutated
// locals, pcall with thrown values of every type, constant-foldable arithmetic).  The program reads the
// globals x, y, z, which the harness makes symbolic, and reports through emit.  Everything the solver
// decides is a property of those inputs; the program text is concrete on every path.
//
// The generator stays inside the constructs where R-lua (rlua.go) models Lua 5.1 exactly: no string
// formatting of numbers, no pairs() order, no '#' on tables with holes, no caught error *strings* (their
// position prefix is implementation text), symbolic comparisons only outside loops and function bodies
// (at most 3 per program, so a program has at most 8 feasible paths).

type pgFn struct {
	name string
	np   int  // fixed parameters
	min  int  // parameters without a default
	va   bool // accepts ...
	num1 bool // every return path yields a number first
	meth bool // called as o:name(...)
	obj  string
}

type pg struct {
	s      uint64
	nums   []string // locals that hold numbers on every path
	strs   []string // locals that hold strings on every path
	idxs   []string // locals that hold 1, 2 or 3 on every path (concrete table keys)
	objs   []string // locals that hold objects with the metatable MT (only when meta is set)
	meta   bool     // the program declares MT and uses metamethods
	anys   []string // locals of any kind
	tabs   []string // locals holding tables used as records (fields a, b and [1..3])
	fns    []pgFn
	ctrs   []string // loop counters: concrete numbers, never assigned by generated statements
	nn     int
	multi  int // > 0 inside code that may run more than once (loop or function body)
	symc   int // remaining symbolic comparisons
	va     bool
	budget int
	loops  int // loop nesting inside the current function
	infn   int
	ret1   bool // current function must return a number first
	cdepth int  // nesting of calls inside argument lists
	// base: the locals of enclosing functions.  A named function never assigns them: Lua leaves the order of
	// operand evaluation open, and both Lua 5.1 and this VM read a local operand of `v + f()` only when the
	// operation executes, i.e. after f ran, so a callee that changes v would make the result depend on that
	// unspecified order (R-lua evaluates strictly left to right).
	base pgScope
}

func (g *pg) r(n int) int {
	g.s += 0x9e3779b97f4a7c15
	z := g.s
	z = (z ^ (z >> 30)) * 0xbf58476d1ce4e5b9
	z = (z ^ (z >> 27)) * 0x94d049bb133111eb
	z ^= z >> 31
	return int(z % uint64(n))
}

func (g *pg) fresh(p string) string {
	g.nn++
	return p + itoa(g.nn)
}

func (g *pg) pick(l []string) string { return l[g.r(len(l))] }

var pgLits = []string{"0", "1", "2", "3", "4", "10", "0.5", "255", "256", "1e3"}
var pgInputs = []string{"x", "y", "z"}
var pgFoldOps = []string{"+", "-", "*", "/", "%", "^"}
var pgRel = []string{"<", "<=", ">", ">=", "==", "~="}

func (g *pg) lit() string { return pgLits[g.r(len(pgLits))] }

// num yields an expression that is a number on every path.
func (g *pg) num(d int) string {
	if len(g.objs) > 0 && d > 0 && g.r(6) == 0 {
		o := g.pick(g.objs)
		switch g.r(7) {
		case 0:
			return "(" + o + " + " + g.num(d-1) + ")"
		case 1:
			return "(" + g.num(d-1) + " - " + o + ")"
		case 2:
			return "(" + o + " + " + g.pick(g.objs) + ")"
		case 3:
			return "(-" + o + ")"
		case 4:
			return "(" + o + "(" + g.num(0) + "))"
		case 5:
			return o + ".v"
		default:
			return "(" + g.num(d-1) + " + " + o + ")"
		}
	}
	c := g.r(12)
	if d <= 0 && c >= 7 {
		c = g.r(7)
	}
	switch {
	case c < 2:
		return g.lit()
	case c < 4:
		return g.pick(pgInputs)
	case c < 6:
		if len(g.nums) > 0 {
			return g.pick(g.nums)
		}
		return g.pick(pgInputs)
	case c == 6:
		if len(g.ctrs) > 0 {
			return g.pick(g.ctrs)
		}
		return g.lit()
	case c == 7 || c == 8:
		op := "+"
		if g.r(2) == 0 {
			op = "-"
		}
		return "(" + g.num(d-1) + " " + op + " " + g.num(d-1) + ")"
	case c == 9:
		return "(-" + g.num(d-1) + ")"
	case c == 10:
		// constant-foldable arithmetic on literals
		return "(" + g.lit() + " " + pgFoldOps[g.r(len(pgFoldOps))] + " " + g.lit() + ")"
	default:
		if f, ok := g.pickFn(true); ok {
			return "(" + g.call(f) + ")"
		}
		if g.r(2) == 0 {
			return "pr(" + g.num(d-1) + ")" // reports when it is evaluated: exposes operand order
		}
		return "(" + g.num(d-1) + " * 2)"
	}
}

// str yields a string-valued expression (concatenation of literals, concrete integers and string locals).
func (g *pg) str(d int) string {
	switch g.r(6) {
	case 0:
		if d > 0 {
			n := 2 + g.r(3)
			var ps []string
			for i := 0; i < n; i++ {
				ps = append(ps, g.str(0))
			}
			return "(" + strings.Join(ps, " .. ") + ")"
		}
	case 1:
		return []string{"1", "2", "10"}[g.r(3)] + " .. " + []string{"'a'", "''", "'b'"}[g.r(3)]
	case 2:
		return "pr(" + g.str(0) + ")"
	case 3:
		if len(g.strs) > 0 {
			return g.pick(g.strs)
		}
	}
	return []string{"'s'", "'t'", "''", "'k'"}[g.r(4)]
}

// cond yields a condition; symbolic comparisons are rationed.
func (g *pg) cond(d int) string {
	if g.multi == 0 && g.symc > 0 && g.r(3) > 0 {
		g.symc--
		// integer-valued operands only: the solver decides these as bit-vector comparisons, whereas an
		// input mixed with a fraction (x + 0.5 < y) costs seconds of floating-point bit-blasting per query
		rhs := g.pick(pgInputs)
		switch g.r(4) {
		case 0:
			rhs = []string{"0", "1", "3", "10", "255", "-1"}[g.r(6)]
		case 1:
			rhs = "(" + rhs + " + " + []string{"1", "2", "256"}[g.r(3)] + ")"
		case 2:
			rhs = "(" + rhs + " - " + g.pick(pgInputs) + ")"
		}
		return g.pick(pgInputs) + " " + pgRel[g.r(len(pgRel))] + " " + rhs
	}
	c := g.r(7)
	if d <= 0 && c >= 3 {
		c = g.r(3)
	}
	switch c {
	case 0:
		return []string{"true", "false", "nil", "0", "''"}[g.r(5)]
	case 1:
		if len(g.ctrs) > 0 {
			return g.pick(g.ctrs) + " " + pgRel[g.r(len(pgRel))] + " " + []string{"1", "2", "3"}[g.r(3)]
		}
		return g.lit() + " " + pgRel[g.r(len(pgRel))] + " " + g.lit()
	case 2:
		if len(g.anys) > 0 {
			return g.pick(g.anys) + []string{" == nil", " ~= nil", ""}[g.r(3)]
		}
		return "not (" + g.cond(0) + ")"
	case 3:
		return "not (" + g.cond(d-1) + ")"
	case 4:
		return "(" + g.cond(d-1) + " and " + g.cond(d-1) + ")"
	case 5:
		return "(" + g.cond(d-1) + " or " + g.cond(d-1) + ")"
	default:
		if g.va {
			return "select('#', ...) " + pgRel[g.r(len(pgRel))] + " " + []string{"0", "1", "2"}[g.r(3)]
		}
		return "not (" + g.cond(d-1) + ")"
	}
}

// anyx yields an expression of any kind and reports whether it is certainly a number.
func (g *pg) anyx(d int) (string, bool) {
	if len(g.objs) > 0 && g.r(7) == 0 {
		o, o2 := g.pick(g.objs), g.pick(g.objs)
		switch g.r(9) {
		case 0:
			return "(" + o + " .. 's')", false
		case 1:
			return "('s' .. " + o + ")", false
		case 2:
			return "(" + o + " == " + o2 + ")", false
		case 3:
			return "(" + o + " ~= " + o2 + ")", false
		case 4:
			return "(" + o + " < " + o2 + ")", false
		case 5:
			return "(" + o + " <= " + o2 + ")", false
		case 6:
			return "(" + o + " > " + o2 + ")", false
		case 7:
			return o + []string{".zz", "[1]", ".v", ".k"}[g.r(4)], false
		default:
			return o + "(" + g.explistStr(g.r(3), true) + ")", false
		}
	}
	switch g.r(19) {
	case 14:
		// a literal operand that decides (or is) the result of and/or
		a := g.num(d - 1)
		if len(g.anys) > 0 && g.r(2) == 0 {
			a = g.pick(g.anys)
		}
		return "(" + []string{a + " or nil", a + " and nil", "nil and " + a, "false or " + a, a + " and false", "nil or " + a, a + " or false", "true and " + a, a + " and true", "(" + a + " and nil) or " + g.num(0)}[g.r(10)] + ")", false
	case 15:
		return g.str(1), false
	case 16:
		e, _ := g.anyx(d - 1)
		return "pr(" + e + ")", false
	case 17:
		if len(g.idxs) > 0 && len(g.tabs) > 0 {
			return g.pick(g.tabs) + "[" + g.pick(g.idxs) + "]", false
		}
	case 18:
		if g.r(3) == 0 {
			// constructor longer than one SETLIST batch, optionally open at the end
			tail := ""
			if f, ok := g.pickFn(false); ok {
				tail = ", " + g.call(f)
			} else if g.va {
				tail = ", ..."
			}
			return "{" + c01Items(49+g.r(4)) + tail + "}", false
		}
	case 0:
		return []string{"nil", "true", "false", "'s'", "'t'", "''"}[g.r(6)], false
	case 1:
		if len(g.anys) > 0 {
			return g.pick(g.anys), false
		}
	case 2:
		return "(" + g.cond(1) + " and " + g.num(d-1) + " or " + g.num(d-1) + ")", true
	case 3:
		return "(" + g.cond(1) + ")", false
	case 4:
		if len(g.tabs) > 0 {
			return g.pick(g.tabs) + []string{".a", ".b", "[1]", "[2]", "[3]", ".c"}[g.r(6)], false
		}
	case 5:
		if f, ok := g.pickFn(false); ok {
			return g.call(f), false // truncated to one value unless last in a list
		}
	case 6:
		if g.va {
			return []string{"...", "(...)", "select('#', ...)", "(select(1, ...))"}[g.r(4)], false
		}
	case 7:
		return "{" + g.explistStr(g.r(3), true) + "}", false
	case 8:
		if len(g.anys) > 0 {
			return "(" + g.pick(g.anys) + " or " + g.num(0) + ")", false
		}
	case 9:
		if len(g.anys) > 0 {
			return "(" + g.pick(g.anys) + " and " + g.num(0) + ")", false
		}
	}
	return g.num(d), true
}

// explist yields n expressions; with multi the last may be an open call or vararg.
func (g *pg) explist(n int, multi bool) ([]string, []bool) {
	var es []string
	var ks []bool
	for i := 0; i < n; i++ {
		if i == n-1 && multi && g.r(3) == 0 {
			if g.va && g.r(2) == 0 {
				es, ks = append(es, "..."), append(ks, false)
				continue
			}
			if f, ok := g.pickFn(false); ok {
				es, ks = append(es, g.call(f)), append(ks, false)
				continue
			}
		}
		e, k := g.anyx(2)
		es, ks = append(es, e), append(ks, k)
	}
	return es, ks
}

func (g *pg) explistStr(n int, multi bool) string {
	es, _ := g.explist(n, multi)
	return strings.Join(es, ", ")
}

func (g *pg) pickFn(num1 bool) (pgFn, bool) {
	var c []pgFn
	for _, f := range g.fns {
		if !num1 || f.num1 {
			c = append(c, f)
		}
	}
	if len(c) == 0 {
		return pgFn{}, false
	}
	return c[g.r(len(c))], true
}

func (g *pg) call(f pgFn) string {
	n := f.np
	switch g.r(6) {
	case 0:
		n = f.min
	case 1:
		n = f.np + 1
	case 2:
		if f.va {
			n = f.np + 2
		}
	}
	var args []string
	for i := 0; i < n; i++ {
		if i < f.np {
			args = append(args, g.num(1))
		} else {
			e, _ := g.anyx(1)
			args = append(args, e)
		}
	}
	if g.va && g.r(5) == 0 && f.va {
		args = append(args, "...")
	} else if n >= f.np && g.cdepth < 2 && g.r(4) == 0 {
		// an open call as the last argument: all its values are passed on (surplus ones dropped by the callee)
		if f2, ok := g.pickFn(false); ok {
			g.cdepth++
			args = append(args, g.call(f2))
			g.cdepth--
		}
	}
	a := strings.Join(args, ", ")
	if f.meth {
		if g.r(2) == 0 {
			return f.obj + ":" + f.name + "(" + a + ")"
		}
		if a != "" {
			a = ", " + a
		}
		return f.obj + "." + f.name + "(" + f.obj + a + ")"
	}
	return f.name + "(" + a + ")"
}

type pgScope struct{ n, a, t, f, c, s, i, o int }

func (g *pg) enter() pgScope {
	return pgScope{len(g.nums), len(g.anys), len(g.tabs), len(g.fns), len(g.ctrs), len(g.strs), len(g.idxs), len(g.objs)}
}
func (g *pg) leave(s pgScope) {
	g.nums, g.anys, g.tabs, g.fns, g.ctrs = g.nums[:s.n], g.anys[:s.a], g.tabs[:s.t], g.fns[:s.f], g.ctrs[:s.c]
	g.strs, g.idxs, g.objs = g.strs[:s.s], g.idxs[:s.i], g.objs[:s.o]
}

func (g *pg) block(sb *strings.Builder, n int) {
	sc := g.enter()
	for i := 0; i < n && g.budget > 0; i++ {
		g.stmt(sb)
	}
	g.leave(sc)
}

func (g *pg) emitStmt(sb *strings.Builder) {
	sb.WriteString("emit(" + g.explistStr(1+g.r(3), true) + "); ")
}

// target yields an assignable place, the kind of value it must receive (0 any, 1 number, 2 small index,
// 3 string) and an alias key: two targets with clashing keys may denote one place, and the order of the
// stores of a multiple assignment is not defined, so such pairs are not generated.
func (g *pg) target() (string, int, string) {
	switch g.r(9) {
	case 0, 1:
		if len(g.nums) > g.base.n {
			n := g.pick(g.nums[g.base.n:])
			return n, 1, n
		}
	case 2:
		if len(g.anys) > g.base.a {
			n := g.pick(g.anys[g.base.a:])
			return n, 0, n
		}
	case 3:
		if len(g.tabs) > 0 {
			f := []string{".a", ".b", "[1]", "[2]"}[g.r(4)]
			return g.pick(g.tabs) + f, 0, f
		}
	case 4:
		n := []string{"g1", "g2", "g3"}[g.r(3)]
		return n, 0, n
	case 5:
		if len(g.idxs) > 0 && len(g.tabs) > 0 {
			return g.pick(g.tabs) + "[" + g.pick(g.idxs) + "]", 0, "[*]"
		}
	case 6:
		if len(g.idxs) > g.base.i {
			n := g.pick(g.idxs[g.base.i:])
			return n, 2, n
		}
	case 7:
		if len(g.strs) > g.base.s {
			n := g.pick(g.strs[g.base.s:])
			return n, 3, n
		}
	}
	if len(g.anys) > g.base.a {
		n := g.pick(g.anys[g.base.a:])
		return n, 0, n
	}
	return "g1", 0, "g1"
}

func pgClash(seen map[string]bool, key string) bool {
	if seen[key] {
		return true
	}
	if key == "[*]" {
		return seen["[1]"] || seen["[2]"]
	}
	if key == "[1]" || key == "[2]" {
		return seen["[*]"]
	}
	return false
}

func (g *pg) stmt(sb *strings.Builder) {
	g.budget--
	c := g.r(40)
	if g.multi >= 3 && (c >= 15 && c <= 18 || c == 33 || c == 29 || c == 35) {
		c = 9 // no loop inside three levels of loops / function bodies: programs stay short-running
	}
	switch {
	case c == 36 || c == 37: // a bare relational / not expression stored into an existing or new local
		rel := ""
		switch {
		case g.multi == 0 && g.symc > 0 && g.r(2) == 0:
			g.symc--
			rel = g.pick(pgInputs) + " " + pgRel[g.r(len(pgRel))] + " " + []string{"0", "1", "y", "z", "(x + 1)"}[g.r(5)]
		case len(g.ctrs) > 0:
			rel = g.pick(g.ctrs) + " " + pgRel[g.r(len(pgRel))] + " " + []string{"1", "2", "3"}[g.r(3)]
		default:
			rel = g.lit() + " " + pgRel[g.r(len(pgRel))] + " " + g.lit()
		}
		if g.r(4) == 0 && len(g.anys) > 0 {
			rel = "not " + g.pick(g.anys)
		}
		if len(g.anys) > g.base.a && g.r(3) > 0 {
			v := g.pick(g.anys[g.base.a:])
			if g.r(3) == 0 && len(g.nums) > g.base.n {
				sb.WriteString(g.pick(g.nums[g.base.n:]) + ", " + v + " = " + g.num(1) + ", " + rel + "; ")
			} else {
				sb.WriteString(v + " = " + rel + "; ")
			}
		} else {
			v := g.fresh("b")
			sb.WriteString("local " + v + " = " + rel + "; ")
			g.anys = append(g.anys, v)
		}
	case (c == 38 || c == 39) && g.meta: // object with the shared metatable, or a store through __newindex
		if len(g.objs) > 0 && g.r(2) == 0 {
			o := g.pick(g.objs)
			sb.WriteString(o + []string{".nk", ".v", "[2]", ".nk2"}[g.r(4)] + " = " + g.num(1) + "; ")
		} else {
			o := g.fresh("o")
			sb.WriteString("local " + o + " = setmetatable({v = " + g.num(1) + ", k = " + []string{"1", "2", "3"}[g.r(3)] + "}, MT); ")
			g.objs = append(g.objs, o)
		}
	case c == 30: // small index local (a concrete table key that assignments may change)
		k := g.fresh("k")
		sb.WriteString("local " + k + " = " + []string{"1", "2", "3"}[g.r(3)] + "; ")
		g.idxs = append(g.idxs, k)
	case c == 31: // string local
		n := g.fresh("s")
		sb.WriteString("local " + n + " = " + g.str(1) + "; ")
		g.strs = append(g.strs, n)
	case c == 32 && len(g.nums) > 0: // shadowing declaration: the initialiser sees the outer variable
		n := g.pick(g.nums)
		sb.WriteString("local " + n + " = (" + n + " + " + g.num(1) + "); ")
	case c == 33: // generic for over a stateless iterator with an explicit expression list
		it := g.fresh("it")
		a, b := g.fresh("k"), g.fresh("w")
		ova := g.va
		g.va = false
		v, _ := g.anyx(1)
		g.va = ova
		sb.WriteString("local function " + it + "(s, c) if c < s then return c + 1, " + v + " end end; ")
		vars := a
		if g.r(3) > 0 {
			vars += ", " + b
		}
		sb.WriteString("for " + vars + " in " + it + ", " + []string{"0", "1", "2", "3"}[g.r(4)] + ", 0" + []string{"", ", 'extra'"}[g.r(2)] + " do ")
		sc := g.enter()
		g.ctrs = append(g.ctrs, a)
		if vars != a {
			g.anys = append(g.anys, b)
		}
		g.multi++
		g.loops++
		g.block(sb, 1+g.r(2))
		g.loops--
		g.multi--
		g.leave(sc)
		sb.WriteString("end; ")
	case c == 34 && len(g.tabs) > 0 && len(g.idxs) > g.base.i: // index and indexed place change together
		t, k := g.pick(g.tabs), g.pick(g.idxs[g.base.i:])
		if g.r(2) == 0 {
			sb.WriteString(k + ", " + t + "[" + k + "] = " + []string{"1", "2", "3"}[g.r(3)] + ", " + g.num(1) + "; ")
		} else {
			sb.WriteString(t + "[" + k + "], " + k + " = " + g.num(1) + ", " + []string{"1", "2", "3"}[g.r(3)] + "; ")
		}
	case c < 5: // local declaration
		n := 1 + g.r(3)
		m := g.r(4)
		es, ks := g.explist(m, true)
		var names []string
		for i := 0; i < n; i++ {
			names = append(names, g.fresh("v"))
		}
		sb.WriteString("local " + strings.Join(names, ", "))
		if m > 0 {
			sb.WriteString(" = " + strings.Join(es, ", "))
		}
		sb.WriteString("; ")
		// names come into scope after the statement
		for i, nm := range names {
			if i < m && ks[i] {
				g.nums = append(g.nums, nm)
			} else {
				g.anys = append(g.anys, nm)
			}
		}
	case c < 9: // multiple assignment
		n := 1 + g.r(3)
		var ts []string
		var es []string
		seen := map[string]bool{}
		for i := 0; i < n; i++ {
			t, kind, key := g.target()
			if pgClash(seen, key) {
				continue // the order of stores to one place is not defined by the manual
			}
			seen[key] = true
			ts = append(ts, t)
			switch kind {
			case 1:
				es = append(es, g.num(2))
			case 2:
				es = append(es, []string{"1", "2", "3"}[g.r(3)])
			case 3:
				es = append(es, g.str(1))
			default:
				e, _ := g.anyx(2)
				es = append(es, e)
			}
		}
		// surplus value (evaluated and dropped) or an open last expression feeding only "any" places
		if g.r(4) == 0 {
			e, _ := g.anyx(1)
			es = append(es, e)
		}
		sb.WriteString(strings.Join(ts, ", ") + " = " + strings.Join(es, ", ") + "; ")
	case c < 12:
		g.emitStmt(sb)
	case c < 15: // if
		sb.WriteString("if " + g.cond(2) + " then ")
		g.block(sb, 1+g.r(2))
		if g.r(3) == 0 {
			sb.WriteString("elseif " + g.cond(1) + " then ")
			g.block(sb, 1)
		}
		if g.r(2) == 0 {
			sb.WriteString("else ")
			g.block(sb, 1+g.r(2))
		}
		sb.WriteString("end; ")
	case c < 17: // numeric for
		i := g.fresh("i")
		lo, hi, st := []string{"1", "0", "1", "2", "3"}[g.r(5)], []string{"3", "2", "2", "1", "0"}[g.r(5)], ""
		if g.r(3) == 0 {
			st = []string{", 2", ", -1", ", 1"}[g.r(3)]
		}
		sb.WriteString("for " + i + " = " + lo + ", " + hi + st + " do ")
		g.loopBody(sb, i)
		sb.WriteString("end; ")
	case c == 17: // while with a counter
		k := g.fresh("c")
		sb.WriteString("local " + k + " = 0; while " + k + " < " + []string{"1", "2", "3"}[g.r(3)] + " do " + k + " = " + k + " + 1; ")
		g.ctrs = append(g.ctrs, k)
		g.loopBody(sb, "")
		sb.WriteString("end; ")
	case c == 18: // repeat: the condition sees the body's locals
		k := g.fresh("c")
		u := g.fresh("u")
		sb.WriteString("local " + k + " = 0; repeat " + k + " = " + k + " + 1; local " + u + " = " + k + " >= " + []string{"1", "2", "3"}[g.r(3)] + "; ")
		g.ctrs = append(g.ctrs, k)
		g.loopBody(sb, "")
		sb.WriteString("until " + u + "; ")
	case c == 19: // do block
		sb.WriteString("do ")
		g.block(sb, 1+g.r(3))
		sb.WriteString("end; ")
	case c < 23:
		g.funcDef(sb)
	case c == 23: // closure capturing a mutated local and a loop counter
		if len(g.nums) > 0 {
			v := g.pick(g.nums)
			extra := "0"
			if len(g.ctrs) > 0 {
				extra = g.pick(g.ctrs)
			}
			sb.WriteString("fs[#fs + 1] = function(...) " + v + " = " + v + " + 1; return " + v + ", " + extra + ", ... end; ")
		} else {
			g.emitStmt(sb)
		}
	case c == 24: // call statement
		if f, ok := g.pickFn(false); ok {
			if g.r(3) == 0 {
				sb.WriteString("emit(pcall(" + f.name0() + g.pcallArgs(f) + ")); ")
			} else {
				sb.WriteString(g.call(f) + "; ")
			}
		} else {
			g.emitStmt(sb)
		}
	case c == 25: // record table
		t := g.fresh("t")
		sb.WriteString("local " + t + " = {" + g.num(1) + ", " + g.num(1) + ", a = " + g.num(1) + ", b = " + g.explistStr(1, false))
		if g.r(2) == 0 {
			sb.WriteString(", " + g.explistStr(1, true))
		}
		sb.WriteString("}; ")
		g.tabs = append(g.tabs, t)
	case c == 26: // protected block throwing a value
		e1, e2 := g.fresh("ok"), g.fresh("e")
		sb.WriteString("local " + e1 + ", " + e2 + " = pcall(function(...) ")
		sc := g.enter()
		g.fnBody(sb, true, false, 1+g.r(2))
		if g.r(3) > 0 {
			ova := g.va
			g.va = true
			v, _ := g.anyx(1)
			g.va = ova
			sb.WriteString("error(" + v + "); ")
		} else if len(g.anys) > 0 {
			sb.WriteString("return " + g.pick(g.anys) + " + 1 ")
		}
		g.leave(sc)
		sb.WriteString("end" + g.trailingArgs() + "); emit(" + e1 + ", type(" + e2 + ")); if type(" + e2 + ") ~= 'string' then emit(" + e2 + ") end; ")
	case c == 27 && g.loops > 0: // break
		sb.WriteString("if " + g.cond(1) + " then break end; ")
	case c == 28 && g.infn > 0: // early return
		sb.WriteString("if " + g.cond(1) + " then return " + g.retList() + " end; ")
	default:
		if len(g.tabs) > 0 && g.multi < 3 { // ipairs loop over the array part of a record
			t := g.pick(g.tabs)
			k, v := g.fresh("k"), g.fresh("w")
			sb.WriteString("for " + k + ", " + v + " in ipairs(" + t + ") do ")
			sc := g.enter()
			g.ctrs = append(g.ctrs, k)
			g.anys = append(g.anys, v)
			g.multi++
			g.loops++
			g.block(sb, 1+g.r(2))
			g.loops--
			g.multi--
			g.leave(sc)
			sb.WriteString("end; ")
		} else {
			g.emitStmt(sb)
		}
	}
}

func (f pgFn) name0() string {
	if f.meth {
		return f.obj + "." + f.name + ", " + f.obj
	}
	return f.name
}

func (g *pg) pcallArgs(f pgFn) string {
	s := ""
	n := f.min + g.r(f.np-f.min+2)
	for i := 0; i < n; i++ {
		s += ", " + g.num(1)
	}
	return s
}

func (g *pg) trailingArgs() string {
	s := ""
	for i, n := 0, g.r(3); i < n; i++ {
		s += ", " + g.num(1)
	}
	return s
}

// loopBody generates a loop body that may continue with goto, break, and create closures.
func (g *pg) loopBody(sb *strings.Builder, ctr string) {
	sc := g.enter()
	if ctr != "" {
		g.ctrs = append(g.ctrs, ctr)
	}
	g.multi++
	g.loops++
	if g.r(4) == 0 {
		// continue: the label sits after an inner block so that no local is in scope at the label
		lbl := g.fresh("cont")
		sb.WriteString("do ")
		g.block(sb, 1)
		sb.WriteString("if " + g.cond(1) + " then goto " + lbl + " end; ")
		g.block(sb, 1+g.r(2))
		sb.WriteString("end; ::" + lbl + ":: ")
	} else {
		g.block(sb, 1+g.r(3))
	}
	g.loops--
	g.multi--
	g.leave(sc)
}

func (g *pg) retList() string {
	n := g.r(4)
	if g.ret1 && n == 0 {
		n = 1
	}
	var es []string
	for i := 0; i < n; i++ {
		if i == 0 && g.ret1 {
			es = append(es, g.num(2))
			continue
		}
		if i == n-1 && g.r(3) == 0 {
			if g.va && g.r(2) == 0 {
				es = append(es, "...")
				continue
			}
			if f, ok := g.pickFn(false); ok {
				es = append(es, g.call(f)) // a lone call here is a tail call
				continue
			}
		}
		e, _ := g.anyx(2)
		es = append(es, e)
	}
	if g.ret1 && n == 1 && g.r(4) == 0 {
		if f, ok := g.pickFn(true); ok {
			return g.call(f) // tail call of a function that yields a number first
		}
	}
	return strings.Join(es, ", ")
}

// fnBody generates the statements of a function body (without the final return).
func (g *pg) fnBody(sb *strings.Builder, va, ret1 bool, n int) {
	ova, oret, oloops := g.va, g.ret1, g.loops
	g.va, g.ret1, g.loops = va, ret1, 0
	g.multi++
	g.infn++
	for i := 0; i < n && g.budget > 0; i++ {
		g.stmt(sb)
	}
	g.infn--
	g.multi--
	g.va, g.ret1, g.loops = ova, oret, oloops
}

func (g *pg) funcDef(sb *strings.Builder) {
	f := pgFn{name: g.fresh("f"), np: g.r(4), va: g.r(3) == 0, num1: g.r(3) > 0}
	f.min = f.np
	var ps []string
	for i := 0; i < f.np; i++ {
		ps = append(ps, g.fresh("p"))
	}
	if f.np > 0 && g.r(3) == 0 {
		f.min = f.np - 1
	}
	plist := strings.Join(ps, ", ")
	if f.va {
		if plist != "" {
			plist += ", "
		}
		plist += "..."
	}
	form := g.r(5)
	switch {
	case form == 0 && len(g.tabs) > 0:
		f.meth, f.obj = true, g.pick(g.tabs)
		sb.WriteString("function " + f.obj + ":" + f.name + "(" + plist + ") ")
	case form == 1:
		sb.WriteString("local " + f.name + " = function(" + plist + ") ")
	case form == 2 && g.infn == 0 && g.multi == 0:
		f.name = "G" + f.name
		sb.WriteString("function " + f.name + "(" + plist + ") ")
	default:
		sb.WriteString("local function " + f.name + "(" + plist + ") ")
	}
	sc := g.enter()
	obase := g.base
	g.base = sc
	defer func() { g.base = obase }()
	if f.meth {
		g.tabs = append(g.tabs, "self")
	}
	for i, p := range ps {
		if i >= f.min {
			sb.WriteString(p + " = " + p + " or " + g.lit() + "; ")
		}
		g.nums = append(g.nums, p)
	}
	if f.va && g.r(2) == 0 {
		sb.WriteString("emit(select('#', ...)); ")
	}
	ova, oret := g.va, g.ret1
	g.fnBody(sb, f.va, f.num1, 1+g.r(3))
	g.va, g.ret1 = f.va, f.num1
	g.infn++
	g.multi++
	sb.WriteString("return " + g.retList() + " end; ")
	g.multi--
	g.infn--
	g.va, g.ret1 = ova, oret
	g.leave(sc)
	// the function is callable after its definition (no recursion: programs terminate)
	g.fns = append(g.fns, f)
	if g.r(5) < 3 {
		sb.WriteString("emit(" + g.call(f))
		if g.r(3) == 0 {
			sb.WriteString(", " + g.num(1))
		}
		sb.WriteString("); ")
	}
}

// pgMetaPrologue declares the metatable shared by the generated objects: every handler reports the event and
// the kinds of its operands, and computes from the raw fields v (a number) and k (1, 2 or 3).
const pgMetaPrologue = "local MT = {}; " +
	"local function val(a) if type(a) == 'table' then return rawget(a, 'v') end; return a end; " +
	"MT.__add = function(a, b) emit('add', type(a), type(b)); return val(a) + val(b) end; " +
	"MT.__sub = function(a, b) emit('sub', type(a), type(b)); return val(a) - val(b) end; " +
	"MT.__concat = function(a, b) emit('cat', type(a), type(b)); return 'c' end; " +
	"MT.__eq = function(a, b) emit('eq'); return rawget(a, 'k') == rawget(b, 'k') end; " +
	"MT.__lt = function(a, b) emit('lt'); return rawget(a, 'k') < rawget(b, 'k') end; " +
	"MT.__le = function(a, b) emit('le'); return rawget(a, 'k') <= rawget(b, 'k') end; " +
	"MT.__unm = function(a) emit('unm'); return -rawget(a, 'v') end; " +
	"MT.__index = function(t, key) emit('idx', key); return 7 end; " +
	"MT.__newindex = function(t, key, value) emit('nidx', key, value); rawset(t, key, value) end; " +
	"MT.__call = function(self, ...) emit('call', select('#', ...)); return rawget(self, 'v'), ... end; "

// pgen returns the k-th program of family seed.
func pgen(seed, k int) string {
	g := &pg{s: uint64(seed)<<32 ^ uint64(k), symc: 3, budget: 14}
	// decorrelate neighbouring (seed, k): the state of program k is not a shift of program k+1's
	g.s = uint64(g.r(1<<30))<<34 ^ uint64(g.r(1<<30))<<4 ^ uint64(k)
	var sb strings.Builder
	if g.r(16) == 0 {
		sb.WriteString(c02ManyConsts(250 + g.r(12))) // constant indexes around the RK boundary
	}
	sb.WriteString("local fs = {}; local function pr(v) emit('pr', v); return v end; ")
	if g.r(3) == 0 {
		g.meta = true
		sb.WriteString(pgMetaPrologue)
		for i, v := range []string{"x", "(y + 1)"} {
			o := g.fresh("o")
			sb.WriteString("local " + o + " = setmetatable({v = " + v + ", k = " + itoa(i+1) + "}, MT); ")
			g.objs = append(g.objs, o)
		}
	}
	for g.budget > 0 {
		g.stmt(&sb)
	}
	// final observation of everything still in scope
	sb.WriteString("for i = 1, #fs do emit(fs[i](i)) end; emit(g1, g2, g3")
	for _, n := range g.nums {
		sb.WriteString(", " + n)
	}
	for _, n := range g.anys {
		sb.WriteString(", " + n)
	}
	for _, n := range g.strs {
		sb.WriteString(", " + n)
	}
	for _, n := range g.idxs {
		sb.WriteString(", " + n)
	}
	for _, t := range g.tabs {
		sb.WriteString(", " + t + ".a, " + t + ".b, " + t + "[1], " + t + "[2]")
	}
	for _, o := range g.objs {
		sb.WriteString(", rawget(" + o + ", 'v'), rawget(" + o + ", 'nk'), rawget(" + o + ", 2)")
	}
	sb.WriteString(")")
	return sb.String()
}

// C01.gen — generated programs, whole pipeline against R-lua.
//
//verif:harness prop=C01,C02,C03,C04,C05 tier=quick qparams=nprog:160 tparams=nprog:2500 bounds="generated program family pgen(seed, k), k < 160 (quick) / 2500 (thorough), seed = VERIF_SEED (default 0): about 14 statements each from the grammar in gen.go (locals, multiple assignment, if/loops/break/goto continue, functions with fixed and variable parameters, calls in every result context, tail calls, closures over loop variables, pcall/error values, constant folding, one program in three with objects sharing a metatable that defines __add __sub __concat __eq __lt __le __unm __index __newindex __call); inputs x, y, z symbolic 32-bit integers; at most 3 input-dependent comparisons per program" maxpaths=4000 tmaxpaths=100000
func H_C01_gen() {
	k := VParam("onlyk", -1)
	if k < 0 {
		k = VChoice(VParam("nprog", 160))
	}
	src := pgen(VParam("seed", 0), k)
	if VParam("dump", 0) == 1 {
		VAbort("SRC: " + src)
	}
	diffSoftBound = true
	diffRun("gen#"+itoa(k)+": "+src, src, c01Inputs("int"), Options{})
	VReach("end")
}
