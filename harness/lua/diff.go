//go:build verif

package lua

import (
	"strings"

	"github.com/yuin/gopher-lua/parse"
)

// ---- differential harness: real pipeline (LoadString -> PCall) vs R-lua on the same symbolic inputs ----

type implSep struct{}

type diffInput struct {
	name string
	v    LValue // scalar
}

// diffRun executes src on both sides and asserts equal observable traces.
func diffRun(label, src string, inputs []diffInput, opt Options) {
	// implementation
	L := newL(opt, BaseLibName)
	var trace []interface{}
	L.G.Global.RawSetString("emit", L.NewFunction(func(L *LState) int {
		trace = append(trace, implSep{})
		for i := 1; i <= L.GetTop(); i++ {
			trace = append(trace, L.Get(i))
		}
		return 0
	}))
	for _, in := range inputs {
		L.G.Global.RawSetString(in.name, in.v)
	}
	base := L.GetTop()
	fn, lerr := L.LoadString(src)
	VAssert(lerr == nil, "diff: template loads: "+label)
	L.Push(fn)
	ierr := L.PCall(0, MultRet, nil)
	var iresults []LValue
	if ierr == nil {
		for i := base + 1; i <= L.GetTop(); i++ {
			iresults = append(iresults, L.Get(i))
		}
	}
	// reference, on its own parse of the same text
	chunk, perr := parse.Parse(strings.NewReader(src), "ref")
	VAssert(perr == nil, "diff: template parses: "+label)
	R := newRlua()
	for _, in := range inputs {
		R.globals.rawset(LString(in.name), in.v)
	}
	rresults, rerrv, rfailed := R.run(chunk, nil)
	// compare
	VAssert((ierr != nil) == rfailed, "diff: fails iff the reference semantics fail: "+label)
	VAssert(sameTraceList(trace, R.trace), "diff: same values handed to host functions, in order: "+label)
	if ierr == nil && !rfailed {
		VAssert(len(iresults) == len(rresults), "diff: same number of chunk results: "+label)
		if len(iresults) == len(rresults) {
			for i := range iresults {
				VAssert(sameObs(iresults[i], rresults[i]), "diff: same chunk results: "+label)
			}
		}
	}
	if ierr != nil && rfailed {
		if _, isStr := rerrv.(LString); !isStr {
			if ae, ok := ierr.(*ApiError); ok {
				VAssert(sameObs(ae.Object, rerrv), "diff: same error value: "+label)
			}
		}
	}
}

// sameObs compares an implementation value with a reference value: scalars by value, objects by kind.
func sameObs(a LValue, b rval) bool {
	switch y := b.(type) {
	case *rtable:
		_, ok := a.(*LTable)
		return ok
	case *rfunc, *rbuiltin:
		_, ok := a.(*LFunction)
		return ok
	case LNumber:
		x, ok := a.(LNumber)
		if !ok {
			return false
		}
		return VSameFOrZero(float64(x), float64(y))
	case LValue:
		return sameValue(a, y)
	}
	return false
}

// VSameFOrZero: equal numbers or both NaN (the sign of zero is not observable through emit in 5.1
// except by division; templates that divide by a result expose it as +-inf)
func VSameFOrZero(x, y float64) bool { return VEqF(x, y) }

func sameTraceList(impl []interface{}, ref []rval) bool {
	if len(impl) != len(ref) {
		return false
	}
	ok := true
	for i := range impl {
		_, s1 := impl[i].(implSep)
		_, s2 := ref[i].(rsep)
		if s1 || s2 {
			if s1 != s2 {
				return false
			}
			continue
		}
		ok = VAnd(ok, sameObs(impl[i].(LValue), ref[i]))
	}
	return ok
}

func numIn(name string) diffInput { return diffInput{name, LNumber(VFloat(name))} }
func intIn(name string) diffInput { return diffInput{name, LNumber(float64(VI32(name)))} }
func anyIn(name string) diffInput { return diffInput{name, symValue(name, kNil|kBool|kNum|kStr)} }

type diffTmpl struct {
	src  string
	kind string // "num": 3 symbolic float64; "int": 3 symbolic 32-bit ints; "any": 2 values of any scalar type
}

var c01Templates = []diffTmpl{
	// multiple assignment: all right-hand sides and left-hand prefixes/keys before any store
	{"local a, b = x, y; a, b = b, a; emit(a, b)", "num"},
	{"local a, b, c = x, y, z; a, b, c = c, a, b; emit(a, b, c)", "num"},
	{"local a, b, c = x, y, z; a, b, c = b, c, a; emit(a, b, c)", "num"},
	{"local t = {x, y}; local i = 1; i, t[i] = i + 1, z; emit(t[1], t[2], i)", "num"},
	{"local a, t = x, {}; g, t.k = a + 1, a; emit(g, t.k)", "num"},
	{"local a, t = x, {}; t.k, a = a, y; emit(t.k, a)", "num"},
	{"local t = {}; local a = x; t.a, t.b, a = a, a + y, z; emit(t.a, t.b, a)", "num"},
	{"a, b = x, y; a, b = b, a; emit(a, b)", "num"},
	{"local a, b = x; emit(a, b); a, b = y, z, x; emit(a, b)", "num"},
	{"local function f() return x, y end; local a, b, c = f(); emit(a, b, c); a, b, c = z, f(); emit(a, b, c)", "num"},
	{"local t = {}; t.x, t.y = x, y; t.x, t.y = t.y, t.x; emit(t.x, t.y)", "num"},
	{"local a = {}; local b = a; a.v, a = x, {v = y}; emit(b.v, a.v)", "num"},
	// arithmetic in every destination kind
	{"local a = x + y * z; g = x - y; local t = {x / y, k = x % 3}; emit(a, g, t[1], t.k, -x)", "num"},
	{"local function f(...) return ... end; emit(f(x + 1, y * 2), (f(x, y)))", "num"},
	{"local a = x; local function f() a = a + y; return a end; emit(f(), f(), a)", "num"},
	{"emit(2 ^ 2, x ^ 2, 7 % 3, -7 % 3, 7 % -3, x - x, 1 / 2)", "num"},
	// relational in value and condition context, both polarities
	{"emit(x < y, x <= y, x > y, x >= y, x == y, x ~= y)", "num"},
	{"if x < y then emit(1) else emit(2) end; if not (x <= y) then emit(3) end; if x == y then emit(4) elseif x > z then emit(5) end", "num"},
	{"local a = x < y and y < z; local b = x < y or z; emit(a, b, not a)", "num"},
	{"local r = (x < y) == (y < z); emit(r)", "num"},
	// logical operators with every operand type
	{"emit(x and y, x or y, not x, x and y or 1, nil and x, false or y)", "any"},
	{"local a = x and y; local b = x or y; local c; if x then c = 1 else c = 2 end; emit(a, b, c)", "any"},
	{"local t = {}; t.a = x or 'd'; t.b = x and y; emit(t.a, t.b)", "any"},
	{"local function f(v) return v and 1 or 0 end; emit(f(x), f(y), f(x and y), f(x or y))", "any"},
	{"emit(x == y, x ~= y, x == nil, nil == y, x == false)", "any"},
	{"while x do emit(1); break end; repeat local q = y; emit(2) until q or true", "any"},
	// loops
	{"for i = x, x + 2 do emit(i) end", "int"},
	{"for i = 3, 1, -1 do emit(i + x) end; for i = 1, 0 do emit('never') end", "int"},
	{"local s = 0; for i = 1, 3 do if i == 2 then goto cont end; s = s + i * x; ::cont:: end; emit(s)", "int"},
	{"local i = 0; while i < 3 do i = i + 1; if i + x == 2 then break end; emit(i) end; emit('done', i)", "int"},
	{"local i = 0; repeat local k = i + x; i = i + 1 until k >= x + 2; emit(i)", "int"},
	{"local t = {x, y, z}; for i, v in ipairs(t) do emit(i, v) end", "int"},
	{"local t = {a = x}; for k, v in pairs(t) do emit(k, v) end", "int"},
	{"local n = 0; for i = 1, 2 do for j = 1, 2 do if j == 2 then break end; n = n + x end end; emit(n)", "int"},
	{"do local i = 1; ::top:: if i <= 2 then emit(i + x); i = i + 1; goto top end end", "int"},
	// tables
	{"local t = {x, y, z, n = x + y, [10] = z}; emit(t[1], t[2], t[3], t.n, t[10])", "num"},
	{"local t = {x, y, z, n = x + y}; emit(#t, #{}, #{n = 1})", "num"},
	{"local t = {}; t[1] = x; t[2] = y; t[1.0] = z; emit(t[1], #t, t[3])", "num"},
	{"local t = {[x + 0.5] = 1}; emit(t[x + 0.5], t[y + 0.5], t[x])", "int"},
	{"local function f() return x, y, z end; local t = {f()}; local u = {f(), 1}; emit(#t, t[3], #u, u[2])", "num"},
	// concatenation and length
	{"emit('a' .. 'b' .. 'c', #('ab' .. 'c'), 1 .. 2, 'v' .. 10)", "num"},
	{"local s = x; emit(s .. 'z', #s)", "str"},
	// closures and upvalues
	{"local fs = {}; for i = 1, 3 do fs[i] = function() return i + x end end; emit(fs[1](), fs[2](), fs[3]())", "int"},
	{"local function counter() local c = x; return function() c = c + 1; return c end end; local a, b = counter(), counter(); emit(a(), a(), b())", "int"},
	{"local a = x; local function get() return a end; local function set(v) a = v end; set(y); emit(get(), a)", "num"},
	// varargs and calls
	{"local function f(a, b, ...) return select('#', ...), a, b, ... end; emit(f(x)); emit(f(x, y, z, 1))", "num"},
	{"local function f(...) local a, b = ...; return a, b end; emit(f(x, y, z)); emit((f(x, y)))", "num"},
	{"local function f(...) return {...} end; local t = f(x, nil, z); emit(t[1], t[2], t[3])", "num"},
	{"local t = {f = function(self, v) return self.k + v end, k = x}; emit(t:f(y), t.f(t, z))", "num"},
	{"local function sum(n, acc) if n == 0 then return acc end; return sum(n - 1, acc + x) end; emit(sum(3, 0))", "int"},
	{"emit(unpack({x, y, z})); emit(unpack({x, y, z}, 2)); emit(unpack({x, y, z}, 2, 3))", "num"},
	{"emit(select(2, x, y, z)); emit(select(-1, x, y, z)); emit(select('#'))", "num"},
	// errors
	{"local ok, e = pcall(function() error(x) end); emit(ok, e)", "num"},
	{"local ok, e = pcall(function() local t = nil; return t.k end); emit(ok)", "num"},
	{"local ok, a, b = pcall(function() return x, y end); emit(ok, a, b)", "num"},
	{"emit(1); error(x)", "num"},
	{"local a = x; pcall(function() a = y; error('e') end); emit(a)", "num"},
	// string/number coercions
	{"emit('10' + 1, '3' * '4', 10 .. '', '0x10' + 0, ' 5 ' + 0)", "num"},
	{"emit(x + 1)", "any"},
	{"emit(x .. 'a')", "str"},
	{"emit(x < y)", "any2"},
}

func c01Inputs(kind string) []diffInput {
	switch kind {
	case "num":
		return []diffInput{numIn("x"), numIn("y"), numIn("z")}
	case "int":
		return []diffInput{intIn("x"), intIn("y"), intIn("z")}
	case "str":
		return []diffInput{{"x", LString(strPool[VChoice(len(strPool))])}}
	case "any2":
		return []diffInput{{"x", symValue("x", kNum|kStr)}, {"y", symValue("y", kNum|kStr)}}
	}
	return []diffInput{anyIn("x"), anyIn("y")}
}

// C01.tmpl — whole-pipeline differential against R-lua.
//
//verif:harness prop=C01 tier=quick bounds="60 program templates organised by compiler special case (multiple assignment shapes, destination kinds, relational/logical contexts, loops, goto, tables, closures, varargs, errors, coercions); inputs: 3 symbolic float64 / 3 symbolic 32-bit integers / 2 values of any scalar type"
func H_C01_tmpl() {
	t := c01Templates[VChoice(len(c01Templates))]
	diffRun(t.src, t.src, c01Inputs(t.kind), Options{})
	VReach("end")
}
