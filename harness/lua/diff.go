//go:build verif

package lua

import (
	"strings"

	"github.com/yuin/gopher-lua/parse"
)

// ---- differential harness: real pipeline (LoadString -> PCall) vs R-lua on the same symbolic inputs ----

type implSep struct{}

// diffSoftBound: generated programs that run longer than R-lua's step bound are skipped, not judged
var diffSoftBound bool

type diffInput struct {
	name string
	v    LValue // scalar
}

// diffRun executes src on both sides and asserts equal observable traces.
func diffRun(label, src string, inputs []diffInput, opt Options) {
	if len(label) > 150 {
		label = label[:60] + " ... " + label[len(label)-85:]
	}
	// implementation
	L := newL(opt, BaseLibName)
	var trace []interface{}
	L.G.Global.RawSetString("emit", L.NewFunction(func(L *LState) int {
		trace = append(trace, implSep{})
		for i := 1; i <= L.GetTop(); i++ {
			trace = append(trace, L.Get(i))
		}
		return 0
	}))
	for _, in := range inputs {
		L.G.Global.RawSetString(in.name, in.v)
	}
	base := L.GetTop()
	fn, lerr := L.LoadString(src)
	VAssert(lerr == nil, "diff: template loads: "+label)
	if w := wfProto(fn.Proto); w != "" {
		VAssert(false, "diff: compiled prototype is well-formed (C07): "+label+" ["+w+"]")
	}
	L.Push(fn)
	ierr := L.PCall(0, MultRet, nil)
	var iresults []LValue
	if ierr == nil {
		for i := base + 1; i <= L.GetTop(); i++ {
			iresults = append(iresults, L.Get(i))
		}
	}
	// reference, on its own parse of the same text
	chunk, perr := parse.Parse(strings.NewReader(src), "ref")
	VAssert(perr == nil, "diff: template parses: "+label)
	R := newRlua()
	R.softBound = diffSoftBound
	for _, in := range inputs {
		R.globals.rawset(LString(in.name), in.v)
	}
	rresults, rerrv, rfailed := R.run(chunk, nil)
	if R.tooLong {
		VReach("skipped: reference run longer than the step bound")
		return
	}
	// compare
	if VIsNative() {
		// development aid (VERIF_NOTES=1): both traces in text form
		it, rt := "", ""
		for _, v := range trace {
			if _, ok := v.(implSep); ok {
				it += " |"
			} else {
				it += " " + v.(LValue).String()
			}
		}
		for _, v := range R.trace {
			if _, ok := v.(rsep); ok {
				rt += " |"
			} else if lv, ok := v.(LValue); ok {
				rt += " " + lv.String()
			} else {
				rt += " <obj>"
			}
		}
		VNote("impl:" + it)
		VNote("ref: " + rt)
		if ierr != nil {
			VNote("impl error: " + ierr.Error())
		}
	}
	VAssert((ierr != nil) == rfailed, "diff: fails iff the reference semantics fail: "+label)
	VAssert(sameTraceList(trace, R.trace), "diff: same values handed to host functions, in order: "+label)
	if ierr == nil && !rfailed {
		VAssert(len(iresults) == len(rresults), "diff: same number of chunk results: "+label)
		if len(iresults) == len(rresults) {
			for i := range iresults {
				VAssert(sameObs(iresults[i], rresults[i]), "diff: same chunk results: "+label)
			}
		}
	}
	if ierr != nil && rfailed {
		if _, isStr := rerrv.(LString); !isStr {
			if ae, ok := ierr.(*ApiError); ok {
				VAssert(sameObs(ae.Object, rerrv), "diff: same error value: "+label)
			}
		}
	}
}

// sameObs compares an implementation value with a reference value: scalars by value, objects by kind.
func sameObs(a LValue, b rval) bool {
	switch y := b.(type) {
	case *rtable:
		_, ok := a.(*LTable)
		return ok
	case *rfunc, *rbuiltin:
		_, ok := a.(*LFunction)
		return ok
	case LNumber:
		x, ok := a.(LNumber)
		if !ok {
			return false
		}
		return VSameFOrZero(float64(x), float64(y))
	case LValue:
		return sameValue(a, y)
	}
	return false
}

// VSameFOrZero: equal numbers or both NaN (the sign of zero is not observable through emit in 5.1
// except by division; templates that divide by a result expose it as +-inf)
func VSameFOrZero(x, y float64) bool { return VEqF(x, y) }

func sameTraceList(impl []interface{}, ref []rval) bool {
	if len(impl) != len(ref) {
		return false
	}
	ok := true
	for i := range impl {
		_, s1 := impl[i].(implSep)
		_, s2 := ref[i].(rsep)
		if s1 || s2 {
			if s1 != s2 {
				return false
			}
			continue
		}
		ok = VAnd(ok, sameObs(impl[i].(LValue), ref[i]))
	}
	return ok
}

func numIn(name string) diffInput { return diffInput{name, LNumber(VFloat(name))} }
func intIn(name string) diffInput { return diffInput{name, LNumber(float64(VI32(name)))} }
func anyIn(name string) diffInput { return diffInput{name, symValue(name, kNil|kBool|kNum|kStr)} }

type diffTmpl struct {
	src  string
	kind string // "num": 3 symbolic float64; "int": 3 symbolic 32-bit ints; "any": 2 values of any scalar type
}

var c01Templates = []diffTmpl{
	// a bare local declaration as the very first instruction of a function that is also a jump target: nil on
	// every iteration
	{"local function f(k) repeat local v; emit(v, x); v = k; k = k + 1 until k > 2 end; f(1); local function g(k) while true do local w; emit(w); w = y; k = k + 1; if k > 2 then break end end end; g(1); local function h(k) ::top:: local u, u2; emit(u, u2); u, u2 = z, k; k = k + 1; if k <= 2 then goto top end end; h(1)", "num"},
	// a literal as the object of an assignment target is an error, not a store somewhere else
	{"local function f() local t = {}; ('abc').k = x; return t end; local function g() local a, t = 1, {}; (10).k = y; return t end; local ok, r = pcall(f); local ok2, r2 = pcall(g); emit(ok, ok or type(r), ok2, ok2 or type(r2)); local t = {}; local ok3 = pcall(function() (nil).k = z end); (t).k = x; emit(ok3, t.k)", "num"},
	// surplus right-hand expressions are evaluated before any store
	{"local function pr(v) emit('pr', v); return v end; local a, b = x, y; a, b = z, a + 1, pr(b); emit(a, b); local p = x; p = y, pr(p); emit(p); local t = {}; t.k, p = 1, z, pr(p), pr(t.k); emit(t.k, p)", "num"},
	// multiple assignment: all right-hand sides and left-hand prefixes/keys before any store
	{"local a, b = x, y; a, b = b, a; emit(a, b)", "num"},
	{"local a, b, c = x, y, z; a, b, c = c, a, b; emit(a, b, c)", "num"},
	{"local a, b, c = x, y, z; a, b, c = b, c, a; emit(a, b, c)", "num"},
	{"local t = {x, y}; local i = 1; i, t[i] = i + 1, z; emit(t[1], t[2], i)", "num"},
	{"local a, t = x, {}; g, t.k = a + 1, a; emit(g, t.k)", "num"},
	{"local a, t = x, {}; t.k, a = a, y; emit(t.k, a)", "num"},
	{"local t = {}; local a = x; t.a, t.b, a = a, a + y, z; emit(t.a, t.b, a)", "num"},
	{"a, b = x, y; a, b = b, a; emit(a, b)", "num"},
	{"local a, b = x; emit(a, b); a, b = y, z, x; emit(a, b)", "num"},
	{"local function f() return x, y end; local a, b, c = f(); emit(a, b, c); a, b, c = z, f(); emit(a, b, c)", "num"},
	{"local t = {}; t.x, t.y = x, y; t.x, t.y = t.y, t.x; emit(t.x, t.y)", "num"},
	{"local a = {}; local b = a; a.v, a = x, {v = y}; emit(b.v, a.v)", "num"},
	// arithmetic in every destination kind
	{"local a = x + y * z; g = x - y; local t = {x / y, k = x % 3}; emit(a, g, t[1], t.k, -x)", "num"},
	{"local function f(...) return ... end; emit(f(x + 1, y * 2), (f(x, y)))", "num"},
	{"local a = x; local function f() a = a + y; return a end; emit(f(), f(), a)", "num"},
	{"emit(2 ^ 2, x ^ 2, 7 % 3, -7 % 3, 7 % -3, x - x, 1 / 2)", "num"},
	// run-time % on integer operands (exact remainder semantics in the solver): sign rule, exact multiples, zero
	{"emit(x % 3, x % -3, y % 1, z % -1)", "int"},
	{"local a = x; local t = {k = a % 4}; emit(t.k, -6 % 3, 6 % -3, 0 % -3); local function m(p, q) return p % q end; emit(m(y, 7), m(z, -7))", "int"},
	// relational in value and condition context, both polarities
	{"emit(x < y, x <= y, x > y, x >= y, x == y, x ~= y)", "num"},
	{"if x < y then emit(1) else emit(2) end; if not (x <= y) then emit(3) end; if x == y then emit(4) elseif x > z then emit(5) end", "num"},
	{"local a = x < y and y < z; local b = x < y or z; emit(a, b, not a)", "num"},
	{"local r = (x < y) == (y < z); emit(r)", "num"},
	// logical operators with every operand type
	{"emit(x and y, x or y, not x, x and y or 1, nil and x, false or y)", "any"},
	{"local a = x and y; local b = x or y; local c; if x then c = 1 else c = 2 end; emit(a, b, c)", "any"},
	{"local t = {}; t.a = x or 'd'; t.b = x and y; emit(t.a, t.b)", "any"},
	{"local function f(v) return v and 1 or 0 end; emit(f(x), f(y), f(x and y), f(x or y))", "any"},
	{"emit(x == y, x ~= y, x == nil, nil == y, x == false)", "any"},
	{"while x do emit(1); break end; repeat local q = y; emit(2) until q or true", "any"},
	// loops
	{"for i = x, x + 2 do emit(i) end", "int"},
	{"for i = 3, 1, -1 do emit(i + x) end; for i = 1, 0 do emit('never') end", "int"},
	// numeric for with unusual steps: zero and minus zero (lvm.c: the loop runs while limit <= index when the step
	// is not positive, so a zero step with init >= limit enters the body), fractional, and a fully symbolic
	// init / limit / step cut off after three rounds (round-7 seeded change C01-forloop-zero-step)
	{"for i = 1, 0, 0 do emit(i, x); break end; for i = 3, 3, -0 do emit(i); break end; for i = 0, 1, 0 do emit('never') end; local n = 0; for i = 2, 1, 0 do n = n + 1; if n == 3 then break end end; emit(n)", "int"},
	{"for i = 1, 2, 0.5 do emit(i + x) end; for i = 1, 0, -0.25 do emit(i) end", "int"},
	{"local n = 0; for i = x, y, z do n = n + 1; emit(i); if n == 3 then break end end; emit(n)", "int"},
	{"local s = 0; for i = 1, 3 do if i == 2 then goto cont end; s = s + i * x; ::cont:: end; emit(s)", "int"},
	{"local i = 0; while i < 3 do i = i + 1; if i + x == 2 then break end; emit(i) end; emit('done', i)", "int"},
	{"local i = 0; repeat local k = i + x; i = i + 1 until k >= x + 2; emit(i)", "int"},
	{"local t = {x, y, z}; for i, v in ipairs(t) do emit(i, v) end", "int"},
	{"local t = {a = x}; for k, v in pairs(t) do emit(k, v) end", "int"},
	{"local n = 0; for i = 1, 2 do for j = 1, 2 do if j == 2 then break end; n = n + x end end; emit(n)", "int"},
	{"do local i = 1; ::top:: if i <= 2 then emit(i + x); i = i + 1; goto top end end", "int"},
	// tables
	{"local t = {x, y, z, n = x + y, [10] = z}; emit(t[1], t[2], t[3], t.n, t[10])", "num"},
	{"local t = {x, y, z, n = x + y}; emit(#t, #{}, #{n = 1})", "num"},
	{"local t = {}; t[1] = x; t[2] = y; t[1.0] = z; emit(t[1], #t, t[3])", "num"},
	{"local t = {[x + 0.5] = 1}; emit(t[x + 0.5], t[y + 0.5], t[x])", "int"},
	{"local function f() return x, y, z end; local t = {f()}; local u = {f(), 1}; emit(#t, t[3], #u, u[2])", "num"},
	// concatenation and length
	{"emit('a' .. 'b' .. 'c', #('ab' .. 'c'), 1 .. 2, 'v' .. 10)", "num"},
	{"local s = x; emit(s .. 'z', #s)", "str"},
	// closures and upvalues
	{"local fs = {}; for i = 1, 3 do fs[i] = function() return i + x end end; emit(fs[1](), fs[2](), fs[3]())", "int"},
	{"local function counter() local c = x; return function() c = c + 1; return c end end; local a, b = counter(), counter(); emit(a(), a(), b())", "int"},
	{"local a = x; local function get() return a end; local function set(v) a = v end; set(y); emit(get(), a)", "num"},
	// varargs and calls
	{"local function f(a, b, ...) return select('#', ...), a, b, ... end; emit(f(x)); emit(f(x, y, z, 1))", "num"},
	{"local function f(...) local a, b = ...; return a, b end; emit(f(x, y, z)); emit((f(x, y)))", "num"},
	{"local function f(...) return {...} end; local t = f(x, nil, z); emit(t[1], t[2], t[3])", "num"},
	{"local t = {f = function(self, v) return self.k + v end, k = x}; emit(t:f(y), t.f(t, z))", "num"},
	{"local function sum(n, acc) if n == 0 then return acc end; return sum(n - 1, acc + x) end; emit(sum(3, 0))", "int"},
	{"emit(unpack({x, y, z})); emit(unpack({x, y, z}, 2)); emit(unpack({x, y, z}, 2, 3))", "num"},
	{"emit(select(2, x, y, z)); emit(select(-1, x, y, z)); emit(select('#'))", "num"},
	// errors
	{"local ok, e = pcall(function() error(x) end); emit(ok, e)", "num"},
	{"local ok, e = pcall(function() local t = nil; return t.k end); emit(ok)", "num"},
	{"local ok, a, b = pcall(function() return x, y end); emit(ok, a, b)", "num"},
	{"emit(1); error(x)", "num"},
	{"local a = x; pcall(function() a = y; error('e') end); emit(a)", "num"},
	// evaluation order of operands with effects
	{"local function t(v) emit(v); return v end; emit(t(x) > t(y), t(x) >= t(y), t(x) < t(y), t(x) <= t(y), t(x) == t(y), t(x) ~= t(y)); emit(t(1) + t(2) * t(3), t(4) .. t(5) .. t(6), -t(7) ^ t(8))", "int"},
	{"local n = 0; local function inc() n = n + 1; return n end; emit(inc() > inc(), inc() >= inc(), inc() < inc(), inc() - inc(), inc() / inc()); local t = {inc(), inc(), k = inc()}; emit(t[1], t[2], t.k); if inc() > inc() then emit('gt') else emit('le') end; while inc() > inc() do emit('never') end", "int"},
	{"local function t(v) emit(v); return v end; local o = {}; o[t(1)] = t(2); t(o)[t(3)] = t(4); emit(t(5) and t(6) or t(7), t(nil) and t(8), t(false) or t(9))", "int"},
	// generic for: only nil ends the loop
	{"local c = 0; local function it() c = c + 1; if c == 1 then return false, x elseif c == 2 then return 0, y elseif c == 3 then return '', z end end; for a, b in it do emit(a, b) end; emit(c)", "num"},
	{"local t = {[false] = x, [true] = y}; local n = 0; for k, v in pairs(t) do n = n + 1 end; for k, v in next, t do n = n + 10 end; emit(n, t[false], t[true])", "num"},
	// constant conditions and jump threading
	{"local n = 0; while true do if false then n = 100; n = 200 end; n = n + 1; if n > 3 then break end end; emit(n + x)", "int"},
	{"local n = 0; repeat if nil then n = 50 end; n = n + 1 until n >= 3; emit(n + x)", "int"},
	{"local n = 0; for i = 1, 3 do if true then n = n + i else n = 100 end; while false do n = 7 end end; emit(n + x)", "int"},
	{"local n = 0; while n < 3 do n = n + 1; if n == 2 then goto c end; n = n + x - x; ::c:: end; emit(n)", "int"},
	{"local s = 0; for i = 1, 3 do while true do if i == 2 then break end; s = s + i; break end end; emit(s + x)", "int"},
	// assignment of logical expressions with nil/false/true operands into declared locals
	{"local a, b, c = 1, 2, 3; a = x or nil; b = x and nil; c = nil and x; emit(a, b, c)", "any"},
	{"local a, b, c = 1, 2, 3; a = x or false; b = x and true; c = false or x; emit(a, b, c)", "any"},
	{"local a = 1; a = nil; local b = 2; b = x and y; local c = 3; c = x or y; emit(a, b, c)", "any"},
	{"local t = {}; local a, g = x, nil; t.x, a, g = a, 'new', 1; emit(t.x, a, g)", "num"},
	{"local b = {}; local first = b; local second = {}; b.v, b, g = x, second, 2; emit(first.v, second.v, g)", "num"},
	{"local a, b, c, d = x, y, z, 0; a, b, c, d = d, c, b, a; emit(a, b, c, d); a, b = b, a, c; emit(a, b)", "num"},
	// table constructors around the flush boundary
	{"local function f() return x, y end; local t = {" + c01Items(50) + ", f()}; emit(#t, t[1], t[50], t[51], t[52])", "num"},
	{"local function g() return x end; local t = {" + c01Items(50) + ", k = g()}; emit(#t, t[1], t[50], t.k)", "num"},
	{"local function f() return x, y end; local t = {" + c01Items(100) + ", k = z, f()}; emit(#t, t[1], t[100], t[101], t[102], t.k)", "num"},
	{"local function f() return x, y end; local t = {" + c01Items(49) + ", f()}; local u = {" + c01Items(51) + ", f()}; emit(#t, t[50], t[51], #u, u[52], u[53])", "num"},
	{"local t = {" + c01Items(50) + "}; local u = {" + c01Items(51) + "}; emit(#t, t[50], #u, u[51], t[1] + x)", "num"},
	{"local b = 5; b = (x or 2) and b; local c = 6; c = (x and 2) or c; local d = 7; d = x and y or d; emit(b, c, d)", "any"},
	{"local t = {}; t.a = x and y; t.b = x or y; g = x and y; h = x or y; local l = x and y; emit(t.a, t.b, g, h, l)", "any"},
	{"local b, c = 1, 2; b = not x and y; c = not (x or y); emit(b, c, not x == y)", "any"},
	// string/number coercions
	{"emit('10' + 1, '3' * '4', 10 .. '', '0x10' + 0, ' 5 ' + 0)", "num"},
	{"emit(x + 1)", "any"},
	{"emit(x .. 'a')", "str"},
	{"emit(x < y)", "any2"},
}

// c02ManyConsts returns statements that put n distinct string constants into the chunk's pool
func c02ManyConsts(n int) string {
	var sb strings.Builder
	sb.WriteString("local pool = {")
	for i := 0; i < n; i++ {
		sb.WriteString("'c")
		sb.WriteString(itoa(i))
		sb.WriteString("', ")
	}
	sb.WriteString("}; ")
	return sb.String()
}

func c01Items(n int) string {
	var sb strings.Builder
	for i := 1; i <= n; i++ {
		if i > 1 {
			sb.WriteString(", ")
		}
		sb.WriteString(itoa(i))
	}
	return sb.String()
}

func c01Inputs(kind string) []diffInput {
	switch kind {
	case "num":
		return []diffInput{numIn("x"), numIn("y"), numIn("z")}
	case "int":
		return []diffInput{intIn("x"), intIn("y"), intIn("z")}
	case "str":
		return []diffInput{{"x", LString(strPool[VChoice(len(strPool))])}}
	case "any2":
		return []diffInput{{"x", symValue("x", kNum|kStr)}, {"y", symValue("y", kNum|kStr)}}
	}
	return []diffInput{anyIn("x"), anyIn("y")}
}

// C01.tmpl — whole-pipeline differential against R-lua.
//
//verif:harness prop=C01 tier=quick bounds="93 program templates organised by compiler special case (multiple assignment shapes, destination kinds, relational/logical contexts, loops, goto, tables, closures, varargs, errors, coercions); inputs: 3 symbolic float64 / 3 symbolic 32-bit integers / 2 values of any scalar type"
func H_C01_tmpl() {
	t := c01Templates[VChoice(len(c01Templates))]
	diffRun(t.src, t.src, c01Inputs(t.kind), Options{})
	VReach("end")
}


var c02Templates = []diffTmpl{
	// a tail call through __call with a fixed argument list from a frame that used higher registers before
	{"local obj = setmetatable({}, {__call = function(self, ...) return select('#', ...), ... end}); local function f(a, b) local t = {a, b, 7, 8, 9}; local u, v, w = 1, 2, 3; return obj(a, b) end; emit(f(x, y)); local function g(a) local t = {a, 1, 2, 3}; return obj() end; emit(g(z)); local function h(...) local t = {1, 2, 3, 4}; return obj(...) end; emit(h(x, y, z))", "num"},
	// a parenthesised host call as the whole return list yields exactly one value
	{"local function one() return (select(2, x, y, z)) end; emit(one()); emit(select('#', one())); local t = {one()}; emit(#t, t[1], t[2]); local function two(...) return (unpack({...})) end; emit(two(x, y)); emit(select('#', two(x, y, z))); local a, b, c = one(); emit(a, b, c); local function three() return (rawget({k = x}, 'k')) end; emit(three(), select('#', three()))", "num"},
	// method sugar with an open last argument (call or vararg): every value is passed
	{"local o = {}; function o:m(...) return select('#', ...), ... end; local function f() return x, y end; emit(o:m(f())); emit(o:m(z, f())); local function g(...) return o:m(...) end; emit(g(x, y, z)); emit(o:m((f()))); local function h(...) return o:m(z, ...) end; emit(h()); emit(h(x))", "num"},
	// parameters: missing are nil, surplus dropped or collected
	{"local function f(a, b, c) emit(a, b, c) end; f(); f(x); f(x, y); f(x, y, z); f(x, y, z, 1)", "num"},
	{"local function f(a, ...) emit(a, select('#', ...), ...) end; f(); f(x); f(x, y); f(x, y, z)", "num"},
	{"local function f(...) local a, b, c = ...; emit(a, b, c, select('#', ...)) end; f(x); f(x, y, z, 1)", "num"},
	// result contexts
	{"local function r0() end; local function r2() return x, y end; emit(r0()); emit((r0())); emit(r2()); emit((r2())); emit(r2(), z); emit(z, r2())", "num"},
	{"local function r3() return x, y, z end; local a, b = r3(); local c, d, e, f = r3(); emit(a, b, c, d, e, f)", "num"},
	{"local function r2() return x, y end; local t = {r2(), r2()}; emit(#t, t[1], t[2], t[3]); local u = {r2(), k = 1}; emit(#u, u[1], u[2])", "num"},
	{"local function r2() return x, y end; local function id(...) return ... end; emit(id(r2())); emit(id(r2(), z)); emit(id((r2())))", "num"},
	{"local function r2() return x, y end; local function g() return r2() end; local function h() return (r2()) end; emit(g()); emit(h())", "num"},
	{"local function v(...) return ... end; emit(v()); emit(v(nil)); emit(v(nil, nil)); emit(select('#', v(nil, nil)))", "num"},
	// host callee (emit is a Go function returning nothing; select/unpack/next are Go functions)
	{"emit(select(2, x, y, z)); emit(select('#', x, nil, nil)); emit((select(1, x, y)))", "num"},
	{"local t = {x, y, z}; emit(unpack(t)); emit(unpack(t, 2)); emit(unpack(t, 2, 3)); emit(unpack(t, 3, 2)); emit((unpack(t)))", "num"},
	{"local t = {x, y, z}; local a, b = unpack(t); local c, d, e, f = unpack(t); emit(a, b, c, d, e, f)", "num"},
	// method sugar
	{"local o = {k = x}; function o:get(d) return self.k + d end; function o.plain(s, d) return s.k - d end; emit(o:get(y), o.get(o, z), o:plain(y))", "num"},
	{"local o = {k = x, sub = {k = y}}; function o.sub:m(...) return self.k, ... end; emit(o.sub:m(z, 1))", "num"},
	// __call
	{"local c = setmetatable({}, {__call = function(self, a, b) return a, b, self == nil end}); emit(c(x, y)); emit((c(x)))", "num"},
	// tail calls
	{"local function loop(n, acc) if n == 0 then return acc end; return loop(n - 1, acc + x) end; emit(loop(60, 0))", "int"},
	{"local function a(n) if n == 0 then return x, y end; return a(n - 1) end; emit(a(3)); local p, q, r = a(2); emit(p, q, r)", "num"},
	{"local function f(...) return select('#', ...) end; local function g(...) return f(...) end; emit(g(), g(x), g(x, nil), g(nil, nil, nil))", "num"},
	// constructors with calls in keyed / last positions
	{"local function f() return x, y end; local t = {1, 2, k = f()}; emit(#t, t[3], t.k); local u = {k = f(), f()}; emit(#u, u[1], u[2], u.k); local w = {f(), k = f()}; emit(#w, w[1], w[2], w.k)", "num"},
	{"local function f(...) return {k = ..., ...} end; local t = f(x, y); emit(#t, t[1], t[2], t.k); local function g(...) return {..., k = ...} end; local u = g(x, y); emit(#u, u[1], u[2], u.k)", "num"},
	// generic for with explicit expression lists
	{"local t = {x, y, z}; local n = 0; do local dead = 99 end; for k, v in next, t do n = n + 1; emit(k, v) end; emit(n)", "num"},
	{"local c = 0; local function f() c = c + 1; return {x, y} end; local n = 0; for k in next, f() do n = n + 1 end; emit(n, c)", "num"},
	{"local function it(s, c) if c < 2 then return c + 1, s end end; for a, b in it, x, 0 do emit(a, b) end; for a in it, y, 0 do emit(a) end; for a, b, c in it, z, 1 do emit(a, b, c) end", "num"},
	{"local function gen() return function(s, c) if c < s then return c + 1 end end, 2, 0 end; for i in gen() do emit(i + x) end; for i, j in (gen()) do emit('never') end", "int"},
	// Lua callees entered from host functions (pcall, sort comparator, gsub callback ...)
	{"local function f(a, b, ...) emit(a, b, select('#', ...), ...) end; pcall(f); pcall(f, x); pcall(f, x, y); pcall(f, x, y, z); pcall(f, x, y, z, 1)", "num"},
	{"local function f(a, b, c) emit(a, b, c) end; pcall(f, x); pcall(f, x, y, z, 1); local function v(...) emit(select('#', ...), ...) end; pcall(v); pcall(v, nil, x)", "num"},
	{"local ok, a, b, c = pcall(function(p, q, ...) return p, q, ... end, x); emit(ok, a, b, c); emit(pcall(function(p, q, ...) return ..., q, p end, x, y, z))", "num"},
	// method names beyond the RK constant range
	{c02ManyConsts(260) + "local o = {k = x}; function o:get(d) return self.k + d end; local function mk() return o end; emit(mk():get(y), o:get(z), mk().get(mk(), 1))", "num"},
	{c02ManyConsts(255) + "local o = {k = x}; function o:get(d) return self.k + d end; local function mk() return o end; emit(mk():get(y), o:get(z))", "num"},
	// parenthesised varargs in assignments
	{"local function f(...) local a; g, a = 1, (...); emit(g, a); local b, c; b, c = 2, (...); emit(b, c); local t = {}; t.k, a = a, (...); emit(t.k, a) end; f(x, y); f()", "num"},
	{"local function f(...) local a, b, c = (...), ...; emit(a, b, c); a, b, c = ..., (...); emit(a, b, c); a = (...); emit(a) end; f(x, y, z)", "num"},
	// parenthesised calls assigned to parameters and locals
	{"local function g(v) return v, 9 end; local function f(a) a = (g(a)); return a end; local function f2(a, b) b = (g(b)); a = (g(a)); return a, b end; local function f3(s) s = (s.k(s)); return s end; emit(f(x), f2(y, z)); emit(f3({k = function(o) return x end}))", "num"},
	{"local function g(v) return v, 9 end; local function f(a, ...) local b, c = 1, 2; a = (...); b = (g(a)); emit(a, b, c); c = (g(b)); emit(a, b, c) end; f(0, x, y); f(z)", "num"},
	// unpack with explicit bounds beyond the border
	{"emit(select('#', unpack({x, y}, 1, 4))); emit(unpack({x, y}, 1, 4)); emit(select('#', unpack({}, 1, 3))); emit(unpack({x, nil, z}, 1, 3)); emit(unpack({x, y, z}, 3, 5))", "num"},
	// the compatibility arg table
	{"local function f(a, b, ...) return arg end; local r = f(x, y, z, 1); emit(type(r), r.n, r[1], r[2]); local function g() return f(x, y, z) end; local q = g(); emit(type(q), q.n, q[1])", "num"},
	{"local function f(...) return arg.n, arg[1], arg[3] end; emit(f()); emit(f(x)); emit(f(x, nil, z))", "num"},
	// proper tail calls from vararg functions: no register is left behind (fixed registry of 256 slots)
	{"local function loop(n, ...) if n == 0 then return select('#', ...), ... end; return loop(n - 1, ...) end; emit(loop(300, x, y)); local function pp(n, a, ...) if n == 0 then return a end; return pp(n - 1, a, ...) end; emit(pp(300, z, 1, 2, 3))", "num"},
	// nesting
	{"local function f(a, b) return a + b, a - b end; local function g(...) return f(...) end; emit(g(f(x, y)))", "num"},
	{"local function mk() return function(a) return a, x end end; emit(mk()(y)); emit((mk()(y)))", "num"},
}

// C02.tmpl — call and return adjustment, whole pipeline against R-lua.
//
//verif:harness prop=C02 tier=quick bounds="42 call templates: 0..3 fixed parameters x vararg x 0..4 arguments x result contexts (statement, parenthesised, middle, last in argument list / return / constructor / assignment), Lua and Go callees, method sugar, __call, tail calls incl. depth 60 > CallStackSize 32; inputs 3 symbolic float64 (or 32-bit ints)"
func H_C02_tmpl() {
	t := c02Templates[VChoice(len(c02Templates))]
	diffRun(t.src, t.src, c01Inputs(t.kind), Options{CallStackSize: 32, RegistrySize: 256})
	VReach("end")
}

var c03Templates = []diffTmpl{
	// a retry loop under pcall with no captured variable open in any enclosing frame: each failed activation's
	// closure keeps its own variable
	{"hs = {}; function attempt(i) local v = i * 10 + x; hs[i] = function() v = v + 1; return v end; error('again') end; for i = 1, 3 do pcall(attempt, i) end; emit(hs[1](), hs[2](), hs[3](), hs[1]())", "int"},
	// leaving by a tail call through __call closes the captured variables before the handler's frame takes the registers
	{"local obj = setmetatable({}, {__call = function(self, p, q) local r, s = p + q, p - q; return r, s end}); local get; local function f() local a, b = x, y; get = function() return a, b end; return obj(10, 20) end; emit(f()); emit(get()); local ud = obj; local function g() local c = z; get = function() c = c + 1; return c end; return ud(c, 1) end; emit(g()); emit(get(), get())", "int"},
	// closures over the locals of a frame that fails under xpcall while the handler fails too
	{"local g1, g2; local function body() local a, b = x, y; g1 = function() return a end; g2 = function() b = b + 1; return b end; error('boom') end; local ok = xpcall(body, function(m) error('handler fails too') end); local function reuse(p, q, r) local u, v, w = 91, 92, 93; return u end; reuse(1, 2, 3); local l1, l2, l3 = 5, 6, 7; emit(ok, g1(), g2(), g2(), l1, l2, l3)", "int"},
	{"local gs = {}; local function deep(n) local v = n + x; gs[#gs + 1] = function() v = v + 1; return v end; if n == 0 then error({}) end; return deep(n - 1) + 1 end; local ok = xpcall(function() return deep(2) end, function(m) local t = nil; return t.field end); local a, b, c, d = 1, 2, 3, 4; emit(ok, gs[1](), gs[2](), gs[3](), gs[1](), a, b, c, d)", "int"},
	// environments: free names resolve through the environment of the function that mentions them
	{"local function f() return v end; setfenv(f, {v = x}); emit(f()); v = y; emit(f()); emit(getfenv(f).v, getfenv(f) == _G)", "num"},
	{"local function mk() return function() return v end end; setfenv(mk, {v = x}); local g = mk(); v = y; emit(g()); setfenv(mk, {v = z}); emit(g(), mk()())", "num"},
	{"local function f() setfenv(1, {emit = emit, v = x}); emit(v); w = y end; f(); emit(v, w); emit(getfenv(f).w, getfenv(f) == _G, getfenv(1) == _G, getfenv(0) == _G)", "num"},
	{"local e = {}; local function f() w = x; return w end; emit(setfenv(f, e) == f); emit(f(), e.w, w)", "num"},
	{"local function g() setfenv(2, {emit = emit, v = y}) end; local function f() g(); emit(v) end; f(); emit(v)", "num"},
	{"local e = setmetatable({v = x}, {__index = _G}); local function f() emit(v, type(setfenv)); u = z end; setfenv(f, e); f(); emit(rawget(e, 'u'), u)", "num"},
	{"local function outer() local function inner() return v end; return inner end; local e1 = {v = x}; setfenv(outer, e1); local i1 = outer(); local e2 = {v = y}; setfenv(i1, e2); local i2 = outer(); emit(i1(), i2(), getfenv(i1) == e2, getfenv(i2) == e1)", "num"},
	{"v = z; local fs = {}; for i = 1, 2 do fs[i] = function() return v end end; setfenv(fs[1], {v = x}); emit(fs[1](), fs[2]()); emit((pcall(setfenv, fs[1], nil)), fs[1]())", "num"},
	{"local f; do local v = x; f = function() return v end end; local function g(p, q, r) local u, w = 91, 92; return u end; g(1, 2, 3); emit(f())", "num"},
	{"local fs = {}; for i = 1, 3 do local v = x + i; fs[i] = function() v = v + 1; return v end end; emit(fs[1](), fs[1](), fs[2](), fs[3]())", "int"},
	{"local fs = {}; local i = 0; while i < 3 do i = i + 1; local v = i + x; fs[i] = function() return v end; if i == 2 then break end end; emit(fs[1](), fs[2](), fs[3])", "int"},
	{"local fs = {}; local i = 0; repeat i = i + 1; local v = i * x; fs[i] = function() return v end until v == v and i >= 2; emit(fs[1](), fs[2]())", "int"},
	{"local get, set; do local v = x; get = function() return v end; set = function(n) v = n end end; set(y); emit(get()); set(z); emit(get())", "num"},
	{"local function mk() local v = x; return function() v = v + 1; return v end, function() return v end end; local inc, get = mk(); inc(); inc(); emit(get())", "int"},
	{"local f; for k, v in pairs({a = x}) do f = function() return k, v end end; local function g(...) return ... end; g(1, 2, 3, 4); emit(f())", "num"},
	{"local f; do local v = x; f = function() return v end; goto out end ::out:: local function g(a, b, c, d) return d end; g(1, 2, 3, 4); emit(f())", "num"},
	{"local f; pcall(function() local v = x; f = function() return v end; error('e') end); local function g(a, b, c, d) local e = 5; return e end; g(1, 2, 3, 4); emit(f())", "num"},
	{"local f; pcall(function() local v = x; f = function() return v end; local t = nil; t.k = 1 end); local function g(a, b, c, d) local e = 5; return e end; g(1, 2, 3, 4); emit(f())", "num"},
	{"local function mk(v) return function() return v end end; local a, b = mk(x), mk(y); emit(a(), b(), a())", "num"},
	{"local function outer() local v = x; local function mid() local function inner() v = v + y; return v end; return inner end; return mid() end; local f = outer(); emit(f(), f())", "num"},
	{"local a = x; local function f() return a end; a = y; emit(f()); local function g() a = z end; g(); emit(a, f())", "num"},
	{"local fs = {}; for i = 1, 2 do for j = 1, 2 do fs[#fs + 1] = function() return i * 10 + j + x end end end; emit(fs[1](), fs[2](), fs[3](), fs[4]())", "int"},
	{"local fs = {}; for i = 1, 2 do do local v = i + x; fs[i] = function() return v end; if i == 1 then break end end end; local function junk(a, b, c, d) return d end; junk(5, 6, 7, 8); emit(fs[1]())", "int"},
	{"local fs = {}; for i = 1, 2 do if i then local v = i + x; fs[i] = function() return v end; break end end; local function junk(a, b, c, d) return d end; junk(5, 6, 7, 8); emit(fs[1]())", "int"},
	{"local a = x; local f = function() return a end; do goto l; ::l:: end; a = y; emit(f())", "num"},
	{"local a = x; local function inc() a = a + 1 end; for i = 1, 2 do if i == 1 then goto c end; inc(); ::c:: end; inc(); emit(a)", "int"},
	{"fs = {}; n = 0; repeat local v = n + x; n = n + 1; fs[n] = function() return v end until n >= 3; emit(fs[1](), fs[2](), fs[3]())", "int"},
	{"local function mk() repeat local v = x; k = function() v = v + 1; return v end; if k then break end until true end; mk(); local function junk(a, b, c) return c end; junk(1, 2, 3); emit(k(), k())", "int"},
	{"fs = {}; i = 0; while i < 2 do i = i + 1; local v = i * x; fs[i] = function() return v end end; emit(fs[1](), fs[2]())", "int"},
	{"fs = {}; for i = 1, 2 do local v = i + x; fs[i] = function() v = v + 1; return v end end; emit(fs[1](), fs[1](), fs[2]())", "int"},
	{"local f; local ok = xpcall(function() local ok2 = pcall(function() local v = x; f = function() return v end; error('e') end); error('o') end, function(m) return m end); local function junk(a, b, c, d) return d end; junk(1, 2, 3, 4); emit(f())", "num"},
	{"local x0 = x; local g = function() return x0 end; local x0 = y; emit(g(), x0); do local x0 = z; emit(g(), x0) end; emit(x0)", "num"},
	{"local fs = {}; local i = 0; ::top:: local v = i + x; fs[#fs + 1] = function() v = v + 1; return v end; i = i + 1; if i < 3 then goto top end; emit(fs[1](), fs[1](), fs[2](), fs[3]())", "int"},
	{"local function mk() local fs, i = {}, 0; ::top:: local v = i * x; fs[#fs + 1] = function() return v end; i = i + 1; if i < 3 then goto top end; return fs end; local fs = mk(); emit(fs[1](), fs[2](), fs[3]())", "int"},
	{"local function tail(v) local function get() return v end; return (function(...) return ... end)(get) end; local g = tail(x); local function junk(a, b, c) return c end; junk(1, 2, 3); emit(g())", "num"},
}

// C03.tmpl — closures and captured variables on every exit path, whole pipeline against R-lua.
//
//verif:harness prop=C03 tier=quick bounds="39 closure templates: creation in numeric/generic for, while, repeat, do-blocks and calls; scope left by fall-through, break, goto, return, tail call, caught errors; getfenv/setfenv by function and by level, inheritance of the creator's environment; register-reusing calls before use; inputs symbolic"
func H_C03_tmpl() {
	t := c03Templates[VChoice(len(c03Templates))]
	diffRun(t.src, t.src, c01Inputs(t.kind), Options{})
	VReach("end")
}

var c04Templates = []diffTmpl{
	// handlers are selected by a raw look-up in the metatable: a metatable's own __index chain is not followed
	{"local Base = {__tostring = function() return 'base' end, __unm = function() return 'neg' end, __call = function() return 'called' end}; local Derived = setmetatable({}, {__index = Base}); local o = setmetatable({}, Derived); emit(tostring(o) == 'base', (pcall(function() return -o end)), (pcall(function() return o() end))); local p = setmetatable({}, Base); emit(tostring(p), -p, p())", "num"},
	// == on the same object is true without consulting __eq; the handler's side effects do not happen
	{"local n = 0; local mt = {__eq = function(a, b) n = n + 1; return false end}; local a, b = setmetatable({}, mt), setmetatable({}, mt); emit(a == a, a ~= a, a == b, a ~= b, n); if a == a then emit('same') end; emit(n)", "num"},
	// __newindex chains through tables: each table on the chain is asked raw first, and its own __newindex only for an absent key
	{"local log = {}; local c = setmetatable({x = 1}, {__newindex = function(t, k, v) log[#log + 1] = k; rawset(t, k, v) end}); local a = setmetatable({}, {__newindex = c}); a.x = x; a.y = y; local key = 'x'; a[key] = z; emit(c.x, c.y, rawget(a, 'x'), rawget(a, 'y'), #log, log[1], log[2])", "num"},
	{"local c = setmetatable({g = 1}, {__newindex = function(t, k, v) rawset(t, k, 'via-handler') end}); local env = setmetatable({}, {__newindex = c, __index = _G}); local function f() g = x; h = y end; setfenv(f, env); f(); emit(c.g, c.h, rawget(env, 'g'), rawget(env, 'h'))", "num"},
	{"local mt = {__add = function(a, b) return x end, __sub = function(a, b) return y end}; local o = setmetatable({}, mt); emit(o + 1, 1 + o, o - o, o + 'a')", "num"},
	{"local log = {}; local mt = {__concat = function(a, b) return type(a) .. type(b) end}; local o = setmetatable({}, mt); emit(o .. 'a', 'a' .. o, 1 .. o, o .. o)", "num"},
	{"local mt = {__index = function(t, k) return k .. 'x' end}; local o = setmetatable({real = x}, mt); emit(o.real, o.missing, rawget(o, 'missing'))", "num"},
	{"local base = {inherited = x}; local o = setmetatable({own = y}, {__index = base}); emit(o.own, o.inherited, o.none); base.none = z; emit(o.none)", "num"},
	{"local store = {}; local o = setmetatable({present = x}, {__newindex = store}); o.present = y; o.absent = z; emit(rawget(o, 'present'), rawget(o, 'absent'), store.absent)", "num"},
	{"local n = 0; local o = setmetatable({}, {__newindex = function(t, k, v) n = n + 1; rawset(t, k, v) end}); o.a = x; o.a = y; o.b = z; emit(n, o.a, o.b)", "num"},
	{"local mt = {__eq = function(a, b) return true end}; local a, b = setmetatable({}, mt), setmetatable({}, mt); local c = setmetatable({}, {__eq = function() return true end}); emit(a == b, a ~= b, a == c, a == a, rawequal(a, b))", "num"},
	{"local mt = {__lt = function(a, b) return a.v < b.v end}; local a, b = setmetatable({v = x}, mt), setmetatable({v = y}, mt); emit(a < b, a > b, a <= b, a >= b)", "num"},
	{"local mt = {__lt = function(a, b) return a.v < b.v end, __le = function(a, b) return a.v <= b.v end}; local a, b = setmetatable({v = x}, mt), setmetatable({v = y}, mt); emit(a < b, a <= b, a >= b)", "num"},
	{"local o = setmetatable({}, {__unm = function(a) return x end, __call = function(self, a, b) return a, b end}); emit(-o, o(y, z), (o(y)))", "num"},
	{"local o = setmetatable({}, {__call = function(self, s, c) if c < 2 then return c + 1 end end}); for i in o, nil, 0 do emit(i + x) end", "int"},
	{"local o = setmetatable({}, {__call = function(self, v) return v end}); local function t(v) return o(v) end; emit(t(x))", "num"},
	{"local o = setmetatable({}, {__metatable = 'locked'}); emit(getmetatable(o), (pcall(setmetatable, o, {})))", "num"},
	{"local ok = pcall(function() return {} + 1 end); local ok2 = pcall(function() return {} < {} end); local ok3 = pcall(function() return {} .. 'a' end); emit(ok, ok2, ok3)", "num"},
	{"local a = setmetatable({}, {__index = function(t, k) return x end}); local b = setmetatable({}, {__index = a}); local c = setmetatable({}, {__index = b}); emit(c.k, b.k, rawget(c, 'k'))", "num"},
	{"local store = {}; local mid = setmetatable({}, {__newindex = function(t, k, v) rawset(store, k, v); rawset(t, 'seen', k) end}); local proxy = setmetatable({}, {__newindex = mid}); proxy[1] = x; local key = 'a'; proxy[key] = y; proxy.b = z; emit(store[1], store.a, store.b, rawget(proxy, 1), rawget(mid, 'seen'))", "num"},
	{"local log = {}; local base = setmetatable({}, {__index = function(t, k) log[#log + 1] = k; return x end}); local mid = setmetatable({}, {__index = base}); local top = setmetatable({}, {__index = mid}); local key = 'q'; emit(top[1], top[key], top.r, #log, log[1], log[2], log[3])", "num"},
	{"local o = setmetatable({}, {__mul = function(a, b) return type(a), type(b) end, __div = function(a, b) return x, y end}); emit(o * 2, 2 * o, o / o)", "num"},
}

// C04.tmpl — metamethod dispatch, whole pipeline against R-lua (manual section 2.8).
//
//verif:harness prop=C04 tier=quick bounds="22 metamethod templates: arithmetic/concat left-then-right, __index/__newindex through functions and tables (chains <= 3), __eq identity rule, __lt/__le with fallback, __unm, __call in statement/tail/iterator position, __metatable, missing handlers; inputs symbolic"
func H_C04_tmpl() {
	t := c04Templates[VChoice(len(c04Templates))]
	diffRun(t.src, t.src, c01Inputs(t.kind), Options{})
	VReach("end")
}

var c05Templates = []diffTmpl{
	{"local a = x; local ok, e = pcall(function() a = y; error(z) end); emit(ok, e, a)", "num"},
	{"local ok, e = pcall(function() error({code = x}) end); emit(ok, type(e), e.code)", "num"},
	{"local ok, e = pcall(function() error() end); emit(ok, e); local ok2, e2 = pcall(error); emit(ok2, e2)", "num"},
	{"local ok, e = pcall(function() local t; return t.k end); emit(ok, type(e)); local ok2 = pcall(function() return x() end); emit(ok2)", "num"},
	{"emit(1); local ok = pcall(function() emit(2); error('e'); emit(3) end); emit(4, ok)", "num"},
	{"local ok, e = pcall(function() local ok2, e2 = pcall(function() error(x) end); emit(ok2, e2); error(y) end); emit(ok, e)", "num"},
	{"local ok, e = pcall(pcall, error, x); emit(ok, e)", "num"},
	{"local t = setmetatable({}, {__index = function(t, k) error(x) end}); local ok, e = pcall(function() return t.k end); emit(ok, e)", "num"},
	{"local function iter() error(x) end; local ok, e = pcall(function() for v in iter do emit('never') end end); emit(ok, e)", "num"},
	{"local n = 0; local function f() n = n + 1; if n < 3 then error(n) end; return n + x end; local r; repeat local ok, v = pcall(f); r = v until ok; emit(r, n)", "int"},
	{"local ok, a, b = pcall(function(...) return ... end, x, y); emit(ok, a, b); emit(pcall(function() return end))", "num"},
	{"local ok, e = pcall(function() assert(false, 'msg') end); emit(ok, type(e)); emit(pcall(assert, y, 'm')); emit(select('#', pcall(assert, nil)))", "num"},
	{"emit('before'); error(x); emit('after')", "num"},
	{"local t = {[''] = function() error(x) end}; local ok, e = pcall(function() t['']() end); emit(ok, e)", "num"},
	{"local t = {[''] = function() error('s') end}; emit((pcall(function() t['']() end)), (pcall(t[''])))", "num"},
	{"local n = 0; local function f() n = n + 1; if n < 3 then error(n) end; return n + x end; local r; repeat local ok, v = pcall(f); r = v until ok; emit(r, n)", "int"},
	{"local a, b = x, y; local function seta(v) a = v end; local function getb() return b end; pcall(error, 'e'); local function setb(v) b = v end; setb(z); seta(1); emit(a, b, getb())", "num"},
	{"local ok, e = pcall(error, '100%', 0); emit(ok, e); local ok2, e2 = pcall(function() error('rate=%d items %s', 0) end); emit(ok2, e2); emit(select(2, pcall(error, '%%', 0)))", "num"},
	{"emit(pcall(error, 'x', 100)); emit(coroutine == nil); local ok, e = pcall(error, 'lvl0', 0); emit(ok, e)", "num"},
	{"local ops = {error, pcall, select}; local ok, e = pcall(function() ops[1](x) end); emit(ok, e); emit(ops[2](function() ops[1]({}) end)); local k = 3; emit((pcall(function() return ops[k](-9, 1) end))); local function getf() return ops[1] end; emit(pcall(function() getf()(y) end))", "num"},
	{"local lib = {pcall, next}; emit(lib[1](function() error(x) end)); emit((lib[1](lib[2], nil))); emit(select(2, xpcall(function() lib[2](5) end, function(m) return type(m) end)))", "num"},
	{"emit(xpcall(function() error(x) end, function(e) return e end)); emit(xpcall(function() error({k = y}) end, function(e) return type(e), e.k end)); emit(xpcall(function() error() end, function(e) return e == nil end)); emit(xpcall(function() error(false) end, function(e) return e end))", "num"},
	{"local function lvl() error({v = x}) end; local ok, e = pcall(function() lvl() end); emit(ok, e.v)", "num"},
}

// C05.tmpl — errors contained by protected calls, whole pipeline against R-lua.
//
//verif:harness prop=C05 tier=quick bounds="23 error templates: error values of every type, faults, nested pcall, errors inside metamethods and iterators, retry loops, side effects before/after; inputs symbolic"
func H_C05_tmpl() {
	t := c05Templates[VChoice(len(c05Templates))]
	diffRun(t.src, t.src, c01Inputs(t.kind), Options{})
	VReach("end")
}
