//go:build verif

package lua

import "errors"

// C05.restore — an error of any kind inside a protected call is delivered once and leaves the state intact.
//
//verif:harness prop=C05 tier=quick bounds="7 failure kinds x {direct, behind one Lua frame} x handler {none, Go handler, failing handler} x 0..2 arguments x fixed/auto-growing call stack; error payload symbolic"
func H_C05_restore() {
	mini := VChoice(2) == 1
	L := newL(Options{MinimizeStackMemory: mini}, BaseLibName)
	payload := VFloat("payload")
	tbl := L.NewTable()
	kind := VChoice(7)
	behindLua := VChoice(2) == 1
	hkind := VChoice(3)
	nargs := VChoice(3)
	var nilmap map[string]int
	fail := L.NewFunction(func(L *LState) int {
		L.Push(LNumber(1)) // partial results that must not survive
		switch kind {
		case 0:
			L.RaiseError("boom")
		case 1:
			L.Error(LNumber(payload), 1)
		case 2:
			L.Error(tbl, 1)
		case 3:
			panic("go panic")
		case 4:
			panic(errors.New("go error"))
		case 5:
			nilmap["x"] = 1
		case 6:
			L.Error(LNil, 1)
		}
		return 1
	})
	L.G.Global.RawSetString("fail", fail)
	var callee LValue = fail
	if behindLua {
		VAssert(L.DoString("function viaLua(...) local a, b = 1, 2; return fail(...) + a + b end") == nil, "restore: define wrapper")
		callee = L.GetGlobal("viaLua")
	}
	handlerRuns := 0
	var handlerSawDeeper bool
	var handlerArg LValue
	hret := VFloat("hret")
	var errfunc *LFunction
	// caller context: two values and a marker on the stack
	L.Push(LNumber(901))
	L.Push(LNumber(902))
	sp0, top0 := L.stack.Sp(), L.GetTop()
	switch hkind {
	case 1:
		errfunc = L.NewFunction(func(L *LState) int {
			handlerRuns++
			handlerSawDeeper = L.stack.Sp() > sp0+1
			handlerArg = L.Get(1)
			L.Push(LNumber(hret))
			return 1
		})
	case 2:
		errfunc = L.NewFunction(func(L *LState) int {
			handlerRuns++
			L.RaiseError("handler failed")
			return 0
		})
	}
	oldPanic := L.Panic
	_ = oldPanic
	L.Push(callee)
	for i := 0; i < nargs; i++ {
		L.Push(LNumber(10 + i))
	}
	err := L.PCall(nargs, MultRet, errfunc)
	VAssert(err != nil, "restore: the failure is reported")
	ae, isApi := err.(*ApiError)
	VAssert(isApi, "restore: reported as *ApiError")
	VAssert(L.stack.Sp() == sp0, "restore: call depth restored")
	VAssert(L.GetTop() == top0, "restore: value stack height restored (no arguments, no partial results)")
	VAssert(L.Get(1) == LNumber(901) && L.Get(2) == LNumber(902), "restore: caller's values untouched")
	VAssert(!L.hasErrorFunc, "restore: error-handler flag cleared")
	if hkind == 0 {
		switch kind {
		case 0:
			s, ok := ae.Object.(LString)
			VAssert(ok && len(s) >= 4 && s[len(s)-4:] == "boom", "restore: RaiseError message delivered")
			VAssert(ae.Type == ApiErrorRun, "restore: run-time error type")
		case 1:
			VAssert(sameValue(ae.Object, LNumber(payload)), "restore: error value delivered unchanged (number)")
		case 2:
			VAssert(ae.Object == LValue(tbl), "restore: error value delivered unchanged (table identity)")
		case 3, 4, 5:
			VAssert(ae.Type == ApiErrorPanic, "restore: a Go panic in a host function is contained as a panic-type error")
		case 6:
			VAssert(ae.Object == LNil, "restore: error(nil) delivers nil")
		}
	}
	if hkind == 1 {
		VAssert(handlerRuns == 1, "restore: the handler runs exactly once")
		VAssert(handlerSawDeeper, "restore: the handler runs before the stack is unwound")
		VAssert(sameValue(ae.Object, LNumber(hret)), "restore: the handler's result is what the caller receives")
		if kind == 1 {
			VAssert(sameValue(handlerArg, LNumber(payload)), "restore: the handler receives the error value")
		}
	}
	if hkind == 2 {
		VAssert(handlerRuns == 1, "restore: a failing handler ran exactly once")
	}
	// the state keeps working and open upvalues do not dangle
	for uv := L.uvcache; uv != nil; uv = uv.next {
		VAssert(uv.index < L.reg.Top(), "restore: no open upvalue points above the stack top")
	}
	L.G.Global.RawSetString("p", LNumber(payload))
	err2 := loadRun(L, "local a, b = p, 2; local function f() return a end; return f(), b", 2)
	VAssert(err2 == nil && sameValue(L.Get(-2), LNumber(payload)) && L.Get(-1) == LNumber(2), "restore: later behaviour is unaffected")
	VReach("end")
}

// C05.lua — the same at the Lua level: pcall/xpcall results and caller locals.
//
//verif:harness prop=C05 tier=quick bounds="6 failure templates under pcall and xpcall; symbolic error payload; caller locals checked afterwards"
func H_C05_lua() {
	L := newL(Options{}, BaseLibName)
	payload := VFloat("p")
	L.G.Global.RawSetString("p", LNumber(payload))
	L.G.Global.RawSetString("gopanic", L.NewFunction(func(L *LState) int { panic("host panic") }))
	bodies := []string{
		"error(p)",               // number payload, no position added
		"error({p})",             // table payload
		"local x = nil; x = x + 1", // run-time fault
		"gopanic()",              // Go panic in a host function
		"error('m')",             // string at level 1 gains a position
		"error('m', 0)",          // level 0: no position
	}
	k := VChoice(len(bodies))
	useX := VChoice(2) == 1
	call := "pcall(function() local u = 5; " + bodies[k] + " end)"
	if useX {
		call = "xpcall(function() local u = 5; " + bodies[k] + " end, function(e) hcount = hcount + 1; return e end)"
	}
	err := loadRun(L, "hcount = 0; local a, b = p, 7; local ok, e = "+call+"; return ok, e, a, b, hcount", 5)
	VAssert(err == nil, "lua: nothing escapes the protected call")
	VAssert(L.Get(1) == LFalse, "lua: the protected call returns false")
	VAssert(sameValue(L.Get(3), LNumber(payload)) && L.Get(4) == LNumber(7), "lua: the caller's locals are intact")
	if useX {
		VAssert(L.Get(5) == LNumber(1), "lua: xpcall's handler ran exactly once")
	}
	e := L.Get(2)
	switch k {
	case 0:
		VAssert(sameValue(e, LNumber(payload)), "lua: a non-string error value is delivered unchanged")
	case 1:
		t, ok := e.(*LTable)
		VAssert(ok && sameValue(t.RawGetInt(1), LNumber(payload)), "lua: a table error value is delivered by identity")
	case 2, 3:
		_, ok := e.(LString)
		VAssert(ok, "lua: faults and host panics arrive as messages")
	case 4:
		s, ok := e.(LString)
		VAssert(ok && len(s) > 3 && s[len(s)-3:] == ": m" && errLine(string(s)) == 1, "lua: a string raised at level 1 gains the chunk:line: prefix")
	case 5:
		VAssert(e == LString("m"), "lua: level 0 adds no position")
	}
	VReach("end")
}

// C05.escaped — a closure that escapes from a failed protected call keeps its captured variables, whatever
// the protected call's handler does (none, returns, raises, faults), and the caller's registers are not
// aliased by it afterwards ("the caller's locals and upvalues ... and all later behaviour are what they would
// have been").  Round-5 seeded change C05-handler-error-upvalues-open: the upvalues of the failed call stayed
// open when xpcall's handler itself failed.
//
//verif:harness prop=C05 tier=quick bounds="3 bodies (capture in the failing function / inside a loop block / in a callee one frame deeper) x 7 protections (pcall, xpcall with a returning / raising / faulting handler, pcall around such an xpcall, pcall behind an extra Lua frame, Go-side PCall with a raising Go handler); captured values and error payload symbolic float64; the closure is read, written and read again after the caller's registers were reused"
func H_C05_escaped() {
	L := newL(Options{}, BaseLibName)
	x, y := VFloat("x"), VFloat("y")
	L.G.Global.RawSetString("x", LNumber(x))
	L.G.Global.RawSetString("y", LNumber(y))
	L.G.Global.RawSetString("gopcall", L.NewFunction(func(L *LState) int {
		// a Go-side protected call whose Go handler raises
		L.Push(L.Get(1))
		err := L.PCall(0, 0, L.NewFunction(func(L *LState) int { L.RaiseError("handler failed"); return 0 }))
		L.Push(LBool(err == nil))
		return 1
	}))
	bodies := []string{
		"local function body() local u, v = x, y; get = function() return u, v end; set = function(a) u = a end; error(x) end",
		"local function body() for i = 1, 2 do local u, v = x, y; get = function() return u, v end; set = function(a) u = a end; error(x) end end",
		"local function inner(w) local u, v = x, w; get = function() return u, v end; set = function(a) u = a end; error(x) end local function body() local pad1, pad2 = 1, 2; inner(y) end",
	}
	protects := []string{
		"pcall(body)",
		"xpcall(body, function(e) return e end)",
		"xpcall(body, function(e) error(e) end)",
		"xpcall(body, function(e) local q = nil; return q.f end)",
		"select(2, pcall(xpcall, body, function(e) error(e) end))",
		"pcall(function() local z1, z2, z3 = 1, 2, 3; body(); return z1 end)",
		"gopcall(body)",
	}
	b := VChoice(len(bodies))
	p := VChoice(len(protects))
	src := bodies[b] + "; local ok = " + protects[p] + "; local a, b, c, d = 1, 2, 3, 4; local r1, r2 = get(); set(y); local r3 = get(); " +
		"local function churn(p, q, r) local s, t = p + q, q + r; return s + t end; local ch = churn(1, 2, 3); local r4, r5 = get(); " +
		"return ok, r1, r2, r3, r4, r5, a + b * 10 + c * 100 + d * 1000, ch"
	err := loadRun(L, src, 8)
	VAssert(err == nil, "escaped: nothing escapes the protected call")
	VAssert(L.Get(1) == LFalse, "escaped: the protected call reports failure")
	VAssert(sameValue(L.Get(2), LNumber(x)) && sameValue(L.Get(3), LNumber(y)), "escaped: the closure still sees the values its variables had when the call failed")
	VAssert(sameValue(L.Get(4), LNumber(y)), "escaped: a write through one escaped closure is seen by the other")
	VAssert(sameValue(L.Get(5), LNumber(y)) && sameValue(L.Get(6), LNumber(y)), "escaped: the captured variables survive reuse of the failed call's registers")
	VAssert(L.Get(7) == LNumber(4321) && L.Get(8) == LNumber(8), "escaped: the caller's later locals are not aliased by the escaped closure")
	VReach("end")
}
