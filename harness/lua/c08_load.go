//go:build verif

package lua

import "github.com/yuin/gopher-lua/parse"

// loadBytes runs the real loader on a byte buffer; any panic escaping is an uncaught panic of the harness.
func loadBytes(L *LState, src []byte) (loaded bool, syntaxErr bool) {
	fn, err := L.Load(&symReader{buf: src}, "s")
	if err != nil {
		ae, ok := err.(*ApiError)
		return false, ok && ae.Type == ApiErrorSyntax
	}
	return fn != nil, false
}

// C08.1 — every byte string of length n either loads or is reported as a syntax error.
//
//verif:harness prop=C08 tier=quick qparams=n:2 tparams=n:3 bounds="all byte strings of length <= n (n=2 quick, 3 thorough), all 256 byte values per position"
func H_C08_short() {
	n := VChoice(VParam("n", 2) + 1)
	src := make([]byte, n)
	for i := range src {
		src[i] = VByte("b")
	}
	L := newL(Options{}, BaseLibName)
	loaded, syn := loadBytes(L, src)
	VAssert(loaded || syn, "short: result is a function or a syntax error")
	if loaded {
		VReach("loads")
	} else {
		VReach("syntax-error")
	}
	// determinism: same bytes, same verdict
	loaded2, syn2 := loadBytes(L, src)
	VAssert(loaded2 == loaded && syn2 == syn, "short: same bytes give the same verdict")
	VReach("end")
}

var c08Templates = []string{
	"local a = 1 + 2",
	"x = {1, y = 2; [3] = 'a'}",
	"if a then b() elseif c then d() else e() end",
	"for i = 1, 10, 2 do f(i) end",
	"for k, v in pairs(t) do t[k] = nil end",
	"while a < 3 do a = a + 1 end",
	"repeat local x = f() until x == nil",
	"function m.n:o(p, ...) return ... end",
	"local function f() return function() end end",
	"goto l1; do ::l1:: end",
	"a = 'x\\n\\065' .. [[y]] .. \"z\"",
	"a = 0x1F + 1e2 - .5 * 3 / 2 % 2 ^ 2",
	"a = not b and -c or #d",
	"a.b['c'].d(1)(2):e 'f' {g}",
	"--[==[ c ]==] return a ~= b, a <= b, a >= b, a == b",
}

// C08.2 — single-byte corruptions and truncations of valid templates.
//
//verif:harness prop=C08 tier=quick qparams=ntmpl:4 tparams=ntmpl:15 bounds="every position of the first ntmpl templates replaced by an arbitrary byte, and every truncation"
func H_C08_corrupt() {
	nt := VParam("ntmpl", 4)
	t := c08Templates[VChoice(nt)]
	src := []byte(t)
	mode := VChoice(2)
	if mode == 0 {
		pos := VChoice(len(src))
		src[pos] = VByte("m")
	} else {
		src = src[:VChoice(len(src)+1)]
	}
	L := newL(Options{}, BaseLibName)
	loaded, syn := loadBytes(L, src)
	VAssert(loaded || syn, "corrupt: result is a function or a syntax error")
	if loaded {
		VReach("loads")
	} else {
		VReach("syntax-error")
	}
	VReach("end")
}

var _ = parse.Parse

// ---- C08.3 layout independence: the same token sequence under every separator gives the same meaning ----

var c08Seps = []string{" ", "\n", "\t", "\r\n", "\r", " --c\n", " --[\n", " --[[x]] ", " --[==[x\n]==] ", " --]]\n", "\n\n", " --[=\n", "\f", "\v", " --[==\r\n", "\n\r"}

type c08prog struct {
	toks []string
}

var c08Progs = []c08prog{
	{[]string{"local", "x", "=", "1", "x", "=", "x", "+", "1", "return", "x"}},
	{[]string{"local", "t", "=", "{", "1", ",", "2", ",", "}", "return", "#", "t"}},
	{[]string{"local", "s", "=", "0", "for", "i", "=", "1", ",", "3", "do", "s", "=", "s", "+", "i", "end", "return", "s"}},
	{[]string{"local", "f", "=", "function", "(", "a", ")", "return", "a", "*", "2", "end", "return", "f", "(", "4", ")"}},
	{[]string{"local", "a", "=", "'q'", "if", "a", "==", "'q'", "then", "return", "1", "else", "return", "2", "end"}},
	{[]string{"local", "n", "=", "0", "while", "n", "<", "3", "do", "n", "=", "n", "+", "1", "end", "return", "n", ";"}},
	// a statement starting with a parenthesis right after a closing parenthesis, and calls after it
	{[]string{"local", "function", "set", "(", "a", ",", "v", ")", "(", "a", ")", ".", "x", "=", "v", "end", "local", "t", "=", "{", "}", "set", "(", "t", ",", "5", ")", "return", "(", "t", ")", ".", "x"}},
}

// C08.layout — comment forms, blank space and line ends between tokens do not change the meaning.
//
//verif:harness prop=C08 tier=quick qparams=gaps:1 tparams=gaps:2 bounds="7 token sequences; gaps (1 quick / 2 thorough positions per path, the second within six gaps after the first) filled from 16 separators: blank, tab, FF, VT, LF, CR, CRLF, LFCR, line comments (incl. the texts `[`, `[=` and `]]`), long comments of level 0 and 2 spanning lines; every other gap is a single blank"
func H_C08_layout() {
	p := c08Progs[VChoice(len(c08Progs))]
	ngaps := VParam("gaps", 2)
	special := map[int]string{}
	first := 0
	for g := 0; g < ngaps; g++ {
		pos := 0
		if g == 0 {
			pos = VChoice(len(p.toks) - 1)
			first = pos
			special[pos] = c08Seps[VChoice(len(c08Seps))]
		} else {
			// a further gap lies within the six gaps that follow the first one (separators interact with their
			// neighbourhood: CR/LF pairs, comment ends), wrapping around at the end of the program
			pos = (first + 1 + VChoice(6)) % (len(p.toks) - 1)
			// further gaps use the six separators that interact with neighbours (comments, CR/LF pairs)
			special[pos] = []string{" --[\n", " --[=\n", "\r\n", " --[[x]] ", "\n\r", " --c\n"}[VChoice(6)]
		}
	}
	canon, varied := "", ""
	for i, t := range p.toks {
		canon += t
		varied += t
		if i < len(p.toks)-1 {
			canon += " "
			if s, ok := special[i]; ok {
				varied += s
			} else {
				varied += " "
			}
		}
	}
	L := newL(Options{}, BaseLibName)
	VAssert(loadRun(L, canon, 1) == nil, "layout: canonical rendering runs")
	want := L.Get(-1)
	L.SetTop(0)
	err := loadRun(L, varied, 1)
	VAssert(err == nil, "layout: every lexical rendering of an accepted program is accepted")
	VAssert(sameValue(L.Get(-1), want), "layout: the meaning does not depend on comments, blank space or line ends")
	VReach("end")
}

var c08Invalid = []string{
	"break",
	"local a, b do goto l1 local x ::l1:: print(x) end",
	"for i = 1, 2 do local o = 1; do goto continue; local x = 2; ::continue:: print(x) end end",
	"do goto l1 end local x ::l1:: print(x)",
	"goto nowhere",
	"::a:: ::a::",
	"local function f() local a do goto skip local b ::skip:: b = 1 end end",
	"return return",
	"x = = 1",
	"local 1 = 2",
	"for i = 1 do end",
	"f(",
	"a.b:c = 1",
	"local t = {1, 2",
	"x = 'unfinished",
	"x = [[unfinished",
	"--[[ unfinished comment",
	"x = 1 .. ",
	"if x then else elseif y then end",
	"function f(a, ..., b) end",
	"local x <const> = 1",
	"x = 0x",
	"x = 1e",
	"x = '\\400'",
}

// C08.invalid — programs the grammar or the compiler must reject yield a syntax-classified error, never a panic.
//
//verif:harness prop=C08 tier=quick bounds="24 invalid programs: misplaced break, goto into the scope of a local at several nestings, unknown/duplicate labels, malformed statements, unfinished strings/comments, malformed numbers and escapes; each optionally wrapped in 0..2 enclosing functions with locals"
func H_C08_invalid() {
	src := c08Invalid[VChoice(len(c08Invalid))]
	switch VChoice(3) {
	case 1:
		src = "local p, q = 1, 2; local function w(a, b) " + src + " end"
	case 2:
		src = "local p; for i = 1, 2 do local function w(...) local c, d; " + src + " end end"
	}
	L := newL(Options{}, BaseLibName)
	loaded, syn := loadBytes(L, []byte(src))
	VAssert(!loaded, "invalid: a malformed program is not accepted: "+src)
	VAssert(syn, "invalid: the failure is classified as a syntax/compile error: "+src)
	VReach("end")
}

// C08.loadonly — programs that must load (and are not run): endless loops with empty bodies right after jumping
// statements, where the compiler's jump threading walks chains of jumps.  A compiler that never returns shows
// up as an exceeded path budget (inconclusive), a wrong rejection as a violation.
var c08LoadOnly = []string{
	"while true do end",
	"if x then x = 1 end while true do end",
	"if c then x = 1 else x = 2 end repeat until false",
	"for i = 1, 3 do if i == 2 then break end end while true do end",
	"::top:: goto top",
	"do goto a end ::a:: goto b ::b:: while true do end",
	"while x do if y then break end end repeat until false",
	"local function f() while true do end end if x then return end while true do end",
	"goto l1 ::l1:: goto l2 ::l2:: goto l3 ::l3:: goto l4 ::l4:: goto l5 ::l5:: goto l6 ::l6:: goto l7 ::l7:: while true do end",
}

//verif:harness prop=C08,C07 tier=quick bounds="9 programs with empty endless loops after conditionals, loops with break and goto chains (<= 7 hops); loaded, checked for well-formedness, not run"
func H_C08_loadonly() {
	src := c08LoadOnly[VChoice(len(c08LoadOnly))]
	L := newL(Options{}, BaseLibName)
	fn, err := L.LoadString(src)
	VAssert(err == nil, "loadonly: a valid program loads: "+src)
	if err == nil {
		VAssert(wfProto(fn.Proto) == "", "loadonly: the compiled prototype is well-formed: "+src+" ["+wfProto(fn.Proto)+"]")
	}
	VReach("end")
}

// C08.maporder — "never depends on anything but the bytes": the diagnostic of a rejected program must not depend on
// the iteration order of a Go map inside the compiler (goto/label bookkeeping lives in maps).  The engine forks over
// every rotation of the iteration order of each map with 2..maporder live entries that the code ranges over
// (parameter `maporder`), independently for the two loads below, and the two diagnostics must agree.  Not replayed
// natively: the Go runtime picks the order itself (`nonative`).  Session-2 seeded change C08-unresolved-goto-map-order.
var c08MapOrder = []string{
	"goto a; goto b",
	"do goto a end; do goto b end; goto c",
	"local function f() goto x; goto y end; goto z",
	"::l1:: ::l2:: goto l1; goto l2; goto m1; goto m2",
	"::a:: ::a::",
	"do ::a:: end ::b:: goto a; goto b; goto c",
	"for i = 1, 2 do goto continue; goto other end",
}

//verif:harness prop=C08 tier=quick nonative qparams=maporder:4 tparams=maporder:6 bounds="7 rejected programs with two or more unresolved gotos / duplicate labels in one or several functions and blocks, each loaded twice; every rotation of the iteration order of every ranged-over map with 2..4 (quick) / 2..6 (thorough) live entries, chosen independently per load; rotations only (not all permutations)"
func H_C08_maporder() {
	src := c08MapOrder[VChoice(len(c08MapOrder))]
	L := newL(Options{}, BaseLibName)
	_, err1 := L.LoadString(src)
	_, err2 := L.LoadString(src)
	VAssert(err1 != nil && err2 != nil, "maporder: the program is rejected: "+src)
	if err1 != nil && err2 != nil {
		VAssert(err1.Error() == err2.Error(), "maporder: the diagnostic depends only on the bytes, not on map iteration order: "+src)
	}
	VReach("end")
}
