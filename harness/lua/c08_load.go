//go:build verif

package lua

import "github.com/yuin/gopher-lua/parse"

// loadBytes runs the real loader on a byte buffer; any panic escaping is an uncaught panic of the harness.
func loadBytes(L *LState, src []byte) (loaded bool, syntaxErr bool) {
	fn, err := L.Load(&symReader{buf: src}, "s")
	if err != nil {
		ae, ok := err.(*ApiError)
		return false, ok && ae.Type == ApiErrorSyntax
	}
	return fn != nil, false
}

// C08.1 — every byte string of length n either loads or is reported as a syntax error.
//
//verif:harness prop=C08 tier=quick qparams=n:2 tparams=n:3 bounds="all byte strings of length <= n (n=2 quick, 3 thorough), all 256 byte values per position"
func H_C08_short() {
	n := VChoice(VParam("n", 2) + 1)
	src := make([]byte, n)
	for i := range src {
		src[i] = VByte("b")
	}
	L := newL(Options{}, BaseLibName)
	loaded, syn := loadBytes(L, src)
	VAssert(loaded || syn, "short: result is a function or a syntax error")
	if loaded {
		VReach("loads")
	} else {
		VReach("syntax-error")
	}
	// determinism: same bytes, same verdict
	loaded2, syn2 := loadBytes(L, src)
	VAssert(loaded2 == loaded && syn2 == syn, "short: same bytes give the same verdict")
	VReach("end")
}

var c08Templates = []string{
	"local a = 1 + 2",
	"x = {1, y = 2; [3] = 'a'}",
	"if a then b() elseif c then d() else e() end",
	"for i = 1, 10, 2 do f(i) end",
	"for k, v in pairs(t) do t[k] = nil end",
	"while a < 3 do a = a + 1 end",
	"repeat local x = f() until x == nil",
	"function m.n:o(p, ...) return ... end",
	"local function f() return function() end end",
	"goto l1; do ::l1:: end",
	"a = 'x\\n\\065' .. [[y]] .. \"z\"",
	"a = 0x1F + 1e2 - .5 * 3 / 2 % 2 ^ 2",
	"a = not b and -c or #d",
	"a.b['c'].d(1)(2):e 'f' {g}",
	"--[==[ c ]==] return a ~= b, a <= b, a >= b, a == b",
}

// C08.2 — single-byte corruptions and truncations of valid templates.
//
//verif:harness prop=C08 tier=quick qparams=ntmpl:4 tparams=ntmpl:15 bounds="every position of the first ntmpl templates replaced by an arbitrary byte, and every truncation"
func H_C08_corrupt() {
	nt := VParam("ntmpl", 4)
	t := c08Templates[VChoice(nt)]
	src := []byte(t)
	mode := VChoice(2)
	if mode == 0 {
		pos := VChoice(len(src))
		src[pos] = VByte("m")
	} else {
		src = src[:VChoice(len(src)+1)]
	}
	L := newL(Options{}, BaseLibName)
	loaded, syn := loadBytes(L, src)
	VAssert(loaded || syn, "corrupt: result is a function or a syntax error")
	if loaded {
		VReach("loads")
	} else {
		VReach("syntax-error")
	}
	VReach("end")
}

var _ = parse.Parse
