//go:build verif

package lua

import "time"

// C16.ostime — in a time zone without transitions (UTC: the zone database look-up is stubbed to it),
// os.date('*t', t) splits t into the civil fields of that instant and os.time puts them together again.
//
// The library's own package time is interpreted from source (Unix, the abs/absDate/absClock kernels, Date with
// its normalisation).  t = day * 86400 + s with the day drawn from a pool of boundary days (concrete per path) and
// the second of the day s symbolic: the date fields are then concrete, the clock fields symbolic.

//verif:stub (*time.Location).get
func stubLocationGet(l *time.Location) *time.Location { return time.UTC }

//verif:assume the local time zone is UTC: (*time.Location).get returns time.UTC instead of loading the zone database (the property is stated for a zone without transitions)

// civilFromDays is the reference date computation (proleptic Gregorian calendar; Howard Hinnant's
// days_from_civil inverse), independent of package time.
func civilFromDays(z int64) (y int64, m, d int) {
	z += 719468
	era := z / 146097
	if z < 0 {
		era = (z - 146096) / 146097
	}
	doe := z - era*146097
	yoe := (doe - doe/1460 + doe/36524 - doe/146096) / 365
	y = yoe + era*400
	doy := doe - (365*yoe + yoe/4 - yoe/100)
	mp := (5*doy + 2) / 153
	d = int(doy - (153*mp+2)/5 + 1)
	if mp < 10 {
		m = int(mp + 3)
	} else {
		m = int(mp - 9)
	}
	if m <= 2 {
		y++
	}
	return
}

// days since 1970-01-01: the epoch and its neighbours, leap days and century rules, year ends, the 32-bit limits
var c16Days = []int64{0, 1, -1, 58, 59, 60, 364, 365, 366, 789, 790, 11016, 11017, 11015, 10957, 10956, 24855, 24856, -24856, -25567, -25508, -25509, 47540, 47541, 47482, 47483, 19782, 19783, 16800, 17166}

//verif:harness prop=C16 tier=quick bounds="t = day * 86400 + s: day one of 30 boundary days between 1900 and 2100 (epoch, leap days incl. 1900/2000/2100 rules, year ends, the 32-bit second limits), s every second of the day (symbolic, 17 bits); local zone = UTC (stub); both os.date('*t', t) and os.date('!*t', t)"
func H_C16_ostime() {
	L := newL(Options{}, BaseLibName, OsLibName)
	day := c16Days[VChoice(len(c16Days))]
	// reduced modulo 86400 so that the bound is visible in the term itself (the engine then splits
	// (day*86400 + s) / 86400 into the concrete day and the symbolic second without asking the solver)
	s := int64((VU32("s") & 0x1ffff) % 86400)
	t := day*86400 + s
	format := []string{"*t", "!*t"}[VChoice(2)]
	out, err := callLib(L, "os", "date", 1, LString(format), LNumber(float64(t)))
	VAssert(err == nil, "ostime: os.date succeeds")
	tb, ok := out[0].(*LTable)
	VAssert(ok, "ostime: os.date('*t') returns a table")
	num := func(k string) int64 {
		n, isn := tb.RawGetString(k).(LNumber)
		VAssert(isn, "ostime: field "+k+" is a number")
		return int64(n)
	}
	y, m, d := civilFromDays(day)
	VAssert(num("year") == y && num("month") == int64(m) && num("day") == int64(d), "ostime: year, month and day of that instant")
	VAssert(num("hour") == s/3600 && num("min") == s%3600/60 && num("sec") == s%60, "ostime: hour, minute and second of that instant")
	wd := (day%7 + 7 + 4) % 7 // 1970-01-01 was a Thursday; wday counts from Sunday = 1
	VAssert(num("wday") == wd+1, "ostime: day of the week")
	back, err := callLib(L, "os", "time", 1, tb)
	VAssert(err == nil, "ostime: os.time succeeds")
	bn, isn := back[0].(LNumber)
	VAssert(isn && int64(bn) == t, "ostime: os.time(os.date('*t', t)) == t")
	VReach("end")
}

func two(v int64) []byte { return []byte{byte('0' + v/10), byte('0' + v%10)} }

func four(v int64) []byte {
	return []byte{byte('0' + v/1000), byte('0' + v/100%10), byte('0' + v/10%10), byte('0' + v%10)}
}

// C16.osdatefmt — os.date renders each supported directive from the same civil fields, and text around the
// directives is copied unchanged.
//
//verif:harness prop=C16 tier=quick bounds="8 boundary days x every second of the day (symbolic) x 6 format strings over the directives %Y %y %m %d %H %M %S %w with literal text before, between and after them; UTC ('!' formats)"
func H_C16_osdatefmt() {
	L := newL(Options{}, BaseLibName, OsLibName)
	day := []int64{0, 59, 11016, 10956, 24855, -25509, 19782, 47541}[VChoice(8)]
	s := int64((VU32("s") & 0x1ffff) % 86400)
	t := day*86400 + s
	y, m, d := civilFromDays(day)
	h, mi, se := s/3600, s%3600/60, s%60
	wd := (day%7 + 7 + 4) % 7
	k := VChoice(6)
	format := []string{"!%Y-%m-%d %H:%M:%S", "!%w|%d|%H", "!<%y/%m>%M.", "!x%wd|%S|", "!%H%M%S", "!at %d.%m.%Y, %H h"}[k]
	var want []byte
	switch k {
	case 0:
		want = append(append(append(append(four(y), '-'), two(int64(m))...), '-'), two(int64(d))...)
		want = append(append(append(append(append(append(want, ' '), two(h)...), ':'), two(mi)...), ':'), two(se)...)
	case 1:
		want = append(append(append(append([]byte{byte('0' + wd)}, '|'), two(int64(d))...), '|'), two(h)...)
	case 2:
		want = append(append(append(append(append([]byte{'<'}, two(y%100)...), '/'), two(int64(m))...), '>'), two(mi)...)
		want = append(want, '.')
	case 3:
		want = append(append(append([]byte{'x', byte('0' + wd), 'd', '|'}, two(se)...), '|'))
	case 4:
		want = append(append(two(h), two(mi)...), two(se)...)
	case 5:
		want = append(append(append(append(append([]byte("at "), two(int64(d))...), '.'), two(int64(m))...), '.'), four(y)...)
		want = append(append(append(want, []byte(", ")...), two(h)...), []byte(" h")...)
	}
	out, err := callLib(L, "os", "date", 1, LString(format), LNumber(float64(t)))
	VAssert(err == nil, "osdatefmt: os.date succeeds")
	VAssert(sameBytes(out[0], want), "osdatefmt: each directive renders its field, other text is copied: "+format)
	VReach("end")
}

// C16.timefields — os.time reads each field of its table as Lua 5.1 does (lua_isnumber: a number or a string that
// is a numeral): the same civil fields spelled as numbers, as plain decimal strings, zero-padded to two digits
// ("00", "07") or with a leading blank denote the same instant; an absent hour is noon, absent min/sec are 0.
// Round-7 seeded change C16-ostime-all-zero-string-field ("00" fell through to the field's default).
var c16Clocks = [][3]int64{{0, 0, 0}, {12, 0, 0}, {0, 5, 9}, {7, 0, 59}, {23, 59, 59}, {10, 30, 0}, {1, 1, 1}, {0, 0, 30}}

//verif:harness prop=C16 tier=quick bounds="6 boundary days x 8 clock values (incl. every field zero) x 5 spellings of the fields year/month/day/hour/min/sec (numbers, decimal strings, strings zero-padded to two digits, strings with a leading blank, hour/min/sec omitted when they equal their defaults 12/0/0); UTC stub; all concrete per path"
func H_C16_timefields() {
	L := newL(Options{}, BaseLibName, OsLibName)
	day := []int64{0, 59, 11016, 10957, -25508, 19782}[VChoice(6)]
	c := c16Clocks[VChoice(len(c16Clocks))]
	sp := VChoice(5)
	y, m, d := civilFromDays(day)
	dec := func(v int64) string {
		if v == 0 {
			return "0"
		}
		neg := v < 0
		if neg {
			v = -v
		}
		var b []byte
		for v > 0 {
			b = append([]byte{byte('0' + v%10)}, b...)
			v /= 10
		}
		if neg {
			return "-" + string(b)
		}
		return string(b)
	}
	spell := func(v int64) LValue {
		switch sp {
		case 1:
			return LString(dec(v))
		case 2:
			if v >= 0 && v < 10 {
				return LString("0" + dec(v))
			}
			return LString(dec(v))
		case 3:
			return LString(" " + dec(v))
		}
		return LNumber(float64(v))
	}
	tb := L.NewTable()
	tb.RawSetString("year", spell(y))
	tb.RawSetString("month", spell(int64(m)))
	tb.RawSetString("day", spell(int64(d)))
	if sp == 4 {
		// defaults: hour 12, min 0, sec 0 — omit whichever field equals its default
		if c[0] != 12 {
			tb.RawSetString("hour", LNumber(float64(c[0])))
		}
		if c[1] != 0 {
			tb.RawSetString("min", LNumber(float64(c[1])))
		}
		if c[2] != 0 {
			tb.RawSetString("sec", LNumber(float64(c[2])))
		}
	} else {
		tb.RawSetString("hour", spell(c[0]))
		tb.RawSetString("min", spell(c[1]))
		tb.RawSetString("sec", spell(c[2]))
	}
	back, err := callLib(L, "os", "time", 1, tb)
	VAssert(err == nil, "timefields: os.time succeeds")
	bn, isn := back[0].(LNumber)
	want := day*86400 + c[0]*3600 + c[1]*60 + c[2]
	switch sp {
	case 0:
		VAssert(isn && int64(bn) == want, "timefields: number fields")
	case 1:
		VAssert(isn && int64(bn) == want, "timefields: decimal string fields denote the same instant")
	case 2:
		VAssert(isn && int64(bn) == want, "timefields: zero-padded string fields denote the same instant")
	case 3:
		VAssert(isn && int64(bn) == want, "timefields: string fields with a leading blank denote the same instant")
	default:
		VAssert(isn && int64(bn) == want, "timefields: absent hour is noon, absent min and sec are 0")
	}
	VReach("end")
}
