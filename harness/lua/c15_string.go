//go:build verif

package lua

// posrelat of lstrlib.c
func refPosrelat(pos int, l int) int {
	if pos < 0 {
		pos += l + 1
	}
	if pos >= 0 {
		return pos
	}
	return 0
}

// C15.sub — string.sub(s, i, j) equals lstrlib.c str_sub for every i, j.
//
//verif:harness prop=C15 tier=quick bounds="len(s)<=3 symbolic bytes; i, j: every integer in [-2^31, 2^31) passed as a Lua number"
func H_C15_sub() {
	n := VChoice(4)
	s := VStr("s", n)
	i, j := int(VI32("i")), int(VI32("j"))
	L := newL(Options{}, StringLibName)
	L.Push(L.GetField(L.GetGlobal("string"), "sub"))
	L.Push(LString(s))
	L.Push(LNumber(i))
	L.Push(LNumber(j))
	err := L.PCall(3, 1, nil)
	VAssert(err == nil, "sub: no error")
	got, ok := L.Get(-1).(LString)
	VAssert(ok, "sub: returns a string")
	// reference
	l := n
	start, end := refPosrelat(i, l), refPosrelat(j, l)
	if start < 1 {
		start = 1
	}
	if end > l {
		end = l
	}
	want := ""
	if start <= end {
		want = s[start-1 : end]
	}
	VAssert(string(got) == want, "sub: equals lstrlib str_sub")
	VReach("end")
}
