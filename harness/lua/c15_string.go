//go:build verif

package lua

// posrelat of lstrlib.c
func refPosrelat(pos int, l int) int {
	if pos < 0 {
		pos += l + 1
	}
	if pos >= 0 {
		return pos
	}
	return 0
}

// C15.sub — string.sub(s, i, j) equals lstrlib.c str_sub for every i, j.
//
//verif:harness prop=C15 tier=quick bounds="len(s)<=3 symbolic bytes; i, j: every integer in [-2^31, 2^31) passed as a Lua number"
func H_C15_sub() {
	n := VChoice(4)
	s := VStr("s", n)
	i, j := int(VI32("i")), int(VI32("j"))
	L := newL(Options{}, StringLibName)
	L.Push(L.GetField(L.GetGlobal("string"), "sub"))
	L.Push(LString(s))
	L.Push(LNumber(i))
	L.Push(LNumber(j))
	err := L.PCall(3, 1, nil)
	VAssert(err == nil, "sub: no error")
	got, ok := L.Get(-1).(LString)
	VAssert(ok, "sub: returns a string")
	// reference
	l := n
	start, end := refPosrelat(i, l), refPosrelat(j, l)
	if start < 1 {
		start = 1
	}
	if end > l {
		end = l
	}
	want := ""
	if start <= end {
		want = s[start-1 : end]
	}
	VAssert(string(got) == want, "sub: equals lstrlib str_sub")
	VReach("end")
}

func callLib(L *LState, lib, fn string, nret int, args ...LValue) ([]LValue, error) {
	base := L.GetTop()
	L.Push(L.GetField(L.GetGlobal(lib), fn))
	for _, a := range args {
		L.Push(a)
	}
	if err := L.PCall(len(args), nret, nil); err != nil {
		L.SetTop(base)
		return nil, err
	}
	var out []LValue
	for i := base + 1; i <= L.GetTop(); i++ {
		out = append(out, L.Get(i))
	}
	L.SetTop(base)
	return out, nil
}

func isUpperB(c byte) bool { return c >= 'A' && c <= 'Z' }
func isLowerB(c byte) bool { return c >= 'a' && c <= 'z' }

// C15.strfuncs — byte, char, len, rep, reverse, upper, lower and plain find against their manual definitions.
//
//verif:harness prop=C15 tier=quick bounds="strings of <= 3 symbolic bytes (all 256 values); byte positions in [-6, 6], find init any 32-bit integer; upper/lower on bytes < 0x80; rep count 0..3 and negative; char arguments 0..255"
func H_C15_strfuncs() {
	L := newL(Options{}, BaseLibName, StringLibName)
	n := VChoice(4)
	s := VStr("s", n)
	orig := LString(s)
	cs := VParam("case", -1)
	if cs < 0 {
		cs = VChoice(8)
	}
	switch cs {
	case 0: // byte(s [, i [, j]])
		nargs := VChoice(3)
		i, j := 1, 1
		args := []LValue{LString(s)}
		if nargs >= 1 {
			bi := VByte("i")
			VAssume(bi <= 12)
			i = int(bi) - 6
			args = append(args, LNumber(i))
			j = i
		}
		if nargs == 2 {
			bj := VByte("j")
			VAssume(bj <= 12)
			j = int(bj) - 6
			args = append(args, LNumber(j))
		}
		out, err := callLib(L, "string", "byte", MultRet, args...)
		VAssert(err == nil, "byte: no error")
		pi, pj := refPosrelat(i, n), refPosrelat(j, n)
		if pi <= 0 {
			pi = 1
		}
		if pj > n {
			pj = n
		}
		pi, pj = VConc(pi), VConc(pj)
		want := 0
		if pi <= pj {
			want = pj - pi + 1
		}
		label := []string{"byte: default i and j (s:byte() is the first byte)", "byte: default j is i", "byte: bytes s[i..j] with clamping"}[nargs]
		VAssert(len(out) == want, label)
		for k := 0; k < want && k < len(out); k++ {
			VAssert(out[k] == LNumber(s[pi-1+k]), label)
		}
	case 1: // char
		a, b := VByte("a"), VByte("b")
		out, err := callLib(L, "string", "char", 1, LNumber(a), LNumber(b))
		VAssert(err == nil, "char: no error")
		r, ok := out[0].(LString)
		VAssert(ok && len(r) == 2 && r[0] == a && r[1] == b, "char: one byte per argument, byte-exact")
		out, err = callLib(L, "string", "char", 1)
		VAssert(err == nil && out[0] == LString(""), "char: no arguments gives the empty string")
	case 2: // len
		out, err := callLib(L, "string", "len", 1, LString(s))
		VAssert(err == nil && out[0] == LNumber(n), "len: number of bytes (embedded zeros counted)")
		VAssert(L.ObjLen(LString(s)) == n, "len: # operator agrees")
	case 3: // rep
		k := int(VI32("n"))
		VAssume(VAnd(k >= -2, k <= 3))
		out, err := callLib(L, "string", "rep", 1, LString(s), LNumber(k))
		VAssert(err == nil, "rep: no error")
		k = VConc(k)
		want := ""
		for i := 0; i < k; i++ {
			want += s
		}
		r, ok := out[0].(LString)
		VAssert(ok && string(r) == want, "rep: n copies (empty for n <= 0)")
	case 4: // reverse
		out, err := callLib(L, "string", "reverse", 1, LString(s))
		VAssert(err == nil, "reverse: no error")
		r, ok := out[0].(LString)
		VAssert(ok && len(r) == n, "reverse: same length")
		for i := 0; ok && i < n; i++ {
			VAssert(r[i] == s[n-1-i], "reverse: byte i is byte n+1-i")
		}
	case 5, 6: // upper / lower
		up := VChoice(2) == 0
		fn := "lower"
		if up {
			fn = "upper"
		}
		for i := 0; i < n; i++ {
			VAssume(s[i] < 0x80) // C locale: bytes >= 0x80 are locale-dependent and outside the claim
		}
		out, err := callLib(L, "string", fn, 1, LString(s))
		VAssert(err == nil, fn+": no error")
		r, ok := out[0].(LString)
		VAssert(ok && len(r) == n, fn+": same length")
		ascii := true
		if ascii { // C locale: only A-Z / a-z change; bytes >= 0x80 are locale-dependent and outside the claim
			for i := 0; ok && i < n; i++ {
				c := s[i]
				w := c
				if up && isLowerB(c) {
					w = c - 32
				} else if !up && isUpperB(c) {
					w = c + 32
				}
				VAssert(r[i] == w, fn+": only ASCII letters change case")
			}
		}
	case 7: // plain find
		pn := VChoice(3)
		p := VStr("p", pn)
		init := int(VI32("init"))
		out, err := callLib(L, "string", "find", MultRet, LString(s), LString(p), LNumber(init), LTrue)
		VAssert(err == nil, "find(plain): no error for any init")
		ri := refPosrelat(init, n) - 1
		if ri < 0 {
			ri = 0
		} else if ri > n {
			ri = n
		}
		ri = VConc(ri)
		at := -1
		for k := ri; k+pn <= n; k++ {
			if s[k:k+pn] == p {
				at = k
				break
			}
		}
		if at < 0 {
			VAssert(len(out) == 1 && out[0] == LNil, "find(plain): nil when the substring does not occur at or after init")
		} else {
			VAssert(len(out) == 2 && out[0] == LNumber(at+1) && out[1] == LNumber(at+pn), "find(plain): first occurrence at or after init, 1-based inclusive")
		}
	}
	VAssert(orig == LString(s), "strings are never modified in place")
	VReach("end")
}

// C15.math — math functions against their IEEE definitions (transcendental kernels uninterpreted).
//
//verif:harness prop=C15 tier=quick bounds="all float64 arguments; max/min over 1..3 arguments; fmod/pow/ldexp/atan2 as uninterpreted functions of their Go definition (argument order and arity are checked, not their values)"
func H_C15_math() {
	L := newL(Options{}, BaseLibName, MathLibName)
	x, y, z := VFloat("x"), VFloat("y"), VFloat("z")
	num := func(out []LValue, i int) float64 {
		v, ok := out[i].(LNumber)
		VAssert(ok, "math: result is a number")
		return float64(v)
	}
	switch VChoice(13) {
	case 11:
		// modf of an infinity: the integral part is that infinity and the fraction a zero of the same sign
		// (C99 7.12.6.12), so that the parts still recompose
		inf := mathInfRef(1)
		if VChoice(2) == 1 {
			inf = mathInfRef(-1)
		}
		out, err := callLib(L, "math", "modf", 2, LNumber(inf))
		VAssert(err == nil, "modf: no error")
		VAssert(num(out, 0) == inf && num(out, 1) == 0 && VSameF(num(out, 0)+num(out, 1), inf), "modf: an infinity splits into itself and a zero")
	case 12:
		// deg and rad by lmathlib.c: x / (pi/180) and x * (pi/180) (one rounding each, no intermediate overflow)
		out, err := callLib(L, "math", "deg", 1, LNumber(x))
		VAssert(err == nil && VSameF(num(out, 0), x/mathRadPerDeg()), "deg: x / (pi/180)")
		out, err = callLib(L, "math", "rad", 1, LNumber(x))
		VAssert(err == nil && VSameF(num(out, 0), x*mathRadPerDeg()), "rad: x * (pi/180)")
	case 9:
		// frexp parts recompose exactly through ldexp, for every finite x (the library's own bit-level
		// definitions of Frexp and Ldexp are executed symbolically)
		VAssume(VAnd(x == x, VAnd(x < mathInfRef(1), x > mathInfRef(-1))))
		out, err := callLib(L, "math", "frexp", 2, LNumber(x))
		VAssert(err == nil, "frexp: no error")
		m, e := num(out, 0), num(out, 1)
		VAssert(VOr(VAnd(x == 0, VAnd(m == 0, e == 0)), VOr(VAnd(m >= 0.5, m < 1), VAnd(m <= -0.5, m > -1))), "frexp: mantissa magnitude in [0.5, 1), or all zero")
		out, err = callLib(L, "math", "ldexp", 1, LNumber(m), LNumber(e))
		VAssert(err == nil, "ldexp: no error")
		VAssert(VSameF(num(out, 0), x), "frexp/ldexp: the parts recompose exactly")
	case 10:
		// ldexp(m, e) == m * 2^e for exponents at and beyond the ends of the double range
		pool := []int{-1080, -1075, -1074, -1073, -1023, -1022, -1021, -54, -53, -1, 0, 1, 53, 1022, 1023, 1024, 1025, 2100}
		e := pool[VChoice(len(pool))]
		out, err := callLib(L, "math", "ldexp", 1, LNumber(x), LNumber(e))
		VAssert(err == nil, "ldexp: no error")
		ref, ok := mathLdexpRef(x, e)
		VAssume(ok)
		VAssert(VSameF(num(out, 0), ref), "ldexp: m * 2^e rounded once (no intermediate overflow or underflow)")
	case 0:
		out, err := callLib(L, "math", "floor", 1, LNumber(x))
		VAssert(err == nil, "floor: no error")
		r := num(out, 0)
		VAssert(VImp(VAnd(x < 4503599627370496, x > -4503599627370496), VAnd(r <= x, x < r+1)), "floor: largest integer not above x")
		VAssert(VImp(VOr(x >= 4503599627370496, x <= -4503599627370496), r == x), "floor: values of magnitude >= 2^52 are integers already")
		VAssert(VImp(x != x, r != r), "floor: NaN in, NaN out")
	case 1:
		out, err := callLib(L, "math", "ceil", 1, LNumber(x))
		VAssert(err == nil, "ceil: no error")
		r := num(out, 0)
		VAssert(VImp(VAnd(x < 4503599627370496, x > -4503599627370496), VAnd(r >= x, x > r-1)), "ceil: smallest integer not below x")
	case 2:
		out, err := callLib(L, "math", "abs", 1, LNumber(x))
		VAssert(err == nil, "abs: no error")
		r := num(out, 0)
		VAssert(VImp(x == x, VAnd(r >= 0, VOr(r == x, r == -x))), "abs: magnitude of x")
	case 3, 4:
		isMax := VChoice(2) == 0
		fn := "min"
		if isMax {
			fn = "max"
		}
		na := 1 + VChoice(3)
		args := []LValue{LNumber(x), LNumber(y), LNumber(z)}[:na]
		vals := []float64{x, y, z}[:na]
		out, err := callLib(L, "math", fn, 1, args...)
		VAssert(err == nil, fn+": no error")
		r := num(out, 0)
		// lmathlib.c: the first argument, replaced by each later one that compares greater (smaller): a NaN after
		// the first position is never taken, a NaN in the first position is never replaced, and of two zeros the
		// earlier one stays
		ref := vals[0]
		for _, v := range vals[1:] {
			if isMax {
				ref = VIteF(v > ref, v, ref)
			} else {
				ref = VIteF(v < ref, v, ref)
			}
		}
		VAssert(VSameF(r, ref), fn+": the fold of > (<) over all arguments in order, as lmathlib.c (NaN and signed zeros included)")
	case 5:
		out, err := callLib(L, "math", "fmod", 1, LNumber(x), LNumber(y))
		VAssert(err == nil, "fmod: no error")
		VAssert(VSameF(num(out, 0), mathModRef(x, y)), "fmod: C fmod(x, y) with the arguments in this order")
	case 6:
		out, err := callLib(L, "math", "modf", 2, LNumber(x))
		VAssert(err == nil, "modf: no error")
		ip, fr := num(out, 0), num(out, 1)
		VAssume(VAnd(x < 1e300, x > -1e300))
		VAssert(ip+fr == x, "modf: the parts recompose exactly")
		VAssert(VAnd(VOr(fr == 0, (fr < 0) == (x < 0)), VAnd(fr > -1, fr < 1)), "modf: the fraction has the sign of x and magnitude below 1")
	case 7:
		out, err := callLib(L, "math", "sqrt", 1, LNumber(x))
		VAssert(err == nil, "sqrt: no error")
		VAssert(VSameF(num(out, 0), mathSqrtRef(x)), "sqrt: IEEE square root")
	case 8:
		out, err := callLib(L, "math", "pow", 1, LNumber(x), LNumber(y))
		VAssert(err == nil, "pow: no error")
		VAssert(VSameF(num(out, 0), mathPowRef(x, y)), "pow: pow(x, y) with the arguments in this order")
		out, err = callLib(L, "math", "atan2", 1, LNumber(x), LNumber(y))
		VAssert(err == nil && VSameF(num(out, 0), mathAtan2Ref(x, y)), "atan2: atan2(y-coordinate first)")
	}
	VReach("end")
}
