//go:build verif

package lua

import "math"

// C15.format — string.format of the integer, character and string conversions against C printf.
//
// The real pipeline runs: strFormat -> fmt.Sprintf (the library's own directive parser, interpreted from
// source) -> LNumber.Format / LString.Format -> defaultFormat -> fmt.Fprintf -> fmt's integer and string
// writers, with the argument symbolic.  The reference is refPrintf below, written from the C standard's
// description of fprintf (7.19.6.1) for the conversions Lua 5.1 passes through (lstrlib.c str_format):
// d i -> (long long)arg, o x X -> (unsigned long long)(long long)arg, c -> (unsigned char)arg, s -> bytes.

type cSpec struct {
	minus, plus, space, alt, zero bool
	width                         int // -1: none
	prec                          int // -1: none
	verb                          byte
}

func (s cSpec) text() string {
	t := "%"
	if s.minus {
		t += "-"
	}
	if s.plus {
		t += "+"
	}
	if s.space {
		t += " "
	}
	if s.alt {
		t += "#"
	}
	if s.zero {
		t += "0"
	}
	if s.width >= 0 {
		t += itoa(s.width)
	}
	if s.prec >= 0 {
		t += "." + itoa(s.prec)
	}
	return t + string(s.verb)
}

// refDigits renders u in the given base, most significant digit first ("" for 0).
func refDigits(u uint64, base uint64, upper bool) []byte {
	var rev []byte
	for u > 0 {
		// table look-up: no branch on the digit's value
		if upper {
			rev = append(rev, "0123456789ABCDEF"[u%base])
		} else {
			rev = append(rev, "0123456789abcdef"[u%base])
		}
		u /= base
	}
	out := make([]byte, len(rev))
	for i := range rev {
		out[i] = rev[len(rev)-1-i]
	}
	return out
}

func refPad(body []byte, prefixLen int, s cSpec, zeroOK bool) []byte {
	if s.width < 0 || len(body) >= s.width {
		return body
	}
	n := s.width - len(body)
	if s.minus {
		for i := 0; i < n; i++ {
			body = append(body, ' ')
		}
		return body
	}
	if s.zero && zeroOK {
		// zeros go after the sign / prefix
		out := append([]byte{}, body[:prefixLen]...)
		for i := 0; i < n; i++ {
			out = append(out, '0')
		}
		return append(out, body[prefixLen:]...)
	}
	out := make([]byte, 0, s.width)
	for i := 0; i < n; i++ {
		out = append(out, ' ')
	}
	return append(out, body...)
}

// refPrintfInt is C's d/i/o/x/X conversion of the 64-bit integer v.
func refPrintfInt(s cSpec, v int64) []byte {
	var prefix, digits []byte
	switch s.verb {
	case 'd', 'i':
		u := uint64(v)
		if v < 0 {
			prefix = []byte{'-'}
			u = uint64(-v)
		} else if s.plus {
			prefix = []byte{'+'}
		} else if s.space {
			prefix = []byte{' '}
		}
		digits = refDigits(u, 10, false)
	case 'o':
		digits = refDigits(uint64(v), 8, false)
	case 'x':
		digits = refDigits(uint64(v), 16, false)
		if s.alt && v != 0 {
			prefix = []byte("0x")
		}
	case 'X':
		digits = refDigits(uint64(v), 16, true)
		if s.alt && v != 0 {
			prefix = []byte("0X")
		}
	}
	minDigits := 1
	if s.prec >= 0 {
		minDigits = s.prec
	}
	for len(digits) < minDigits {
		digits = append([]byte{'0'}, digits...)
	}
	if s.verb == 'o' && s.alt && (len(digits) == 0 || digits[0] != '0') {
		digits = append([]byte{'0'}, digits...)
	}
	body := append(append([]byte{}, prefix...), digits...)
	return refPad(body, len(prefix), s, s.prec < 0)
}

var fmtFlagSets = []cSpec{
	{}, {minus: true}, {plus: true}, {space: true}, {alt: true}, {zero: true},
	{minus: true, zero: true}, {plus: true, zero: true}, {alt: true, zero: true}, {minus: true, plus: true}, {space: true, zero: true}, {plus: true, space: true},
}

// fmtQuick: the directives of the quick tier (the thorough tier takes the full product)
var fmtQuick = []cSpec{
	{width: -1, prec: -1, verb: 'd'}, {width: 5, prec: -1, verb: 'd'}, {minus: true, width: 5, prec: -1, verb: 'd'}, {zero: true, width: 5, prec: -1, verb: 'd'},
	{plus: true, width: -1, prec: -1, verb: 'd'}, {space: true, width: -1, prec: -1, verb: 'd'}, {width: -1, prec: 3, verb: 'd'}, {width: 6, prec: 3, verb: 'd'},
	{zero: true, width: 6, prec: 3, verb: 'd'}, {plus: true, width: -1, prec: 0, verb: 'd'}, {plus: true, zero: true, width: 6, prec: -1, verb: 'i'}, {width: -1, prec: -1, verb: 'i'},
	{width: -1, prec: -1, verb: 'x'}, {width: -1, prec: -1, verb: 'X'}, {alt: true, width: -1, prec: -1, verb: 'x'}, {alt: true, width: -1, prec: -1, verb: 'X'},
	{zero: true, width: 8, prec: -1, verb: 'x'}, {alt: true, zero: true, width: 8, prec: -1, verb: 'x'}, {minus: true, width: 8, prec: -1, verb: 'X'}, {width: -1, prec: 3, verb: 'x'},
	{width: -1, prec: -1, verb: 'o'}, {alt: true, width: -1, prec: -1, verb: 'o'}, {alt: true, width: -1, prec: 0, verb: 'o'}, {width: 5, prec: -1, verb: 'o'},
	{plus: true, width: -1, prec: -1, verb: 'x'}, {space: true, width: -1, prec: -1, verb: 'o'},
	{width: -1, prec: -1, verb: 'c'}, {width: 3, prec: -1, verb: 'c'}, {minus: true, width: 3, prec: -1, verb: 'c'},
	{width: -1, prec: -1, verb: 's'}, {width: 5, prec: -1, verb: 's'}, {minus: true, width: 5, prec: -1, verb: 's'}, {width: -1, prec: 2, verb: 's'}, {width: 4, prec: 1, verb: 's'}, {width: -1, prec: 0, verb: 's'},
}

func sameBytes(got LValue, want []byte) bool {
	s, ok := got.(LString)
	if !ok || len(s) != len(want) {
		return false
	}
	eq := true
	for i := range want {
		eq = VAnd(eq, s[i] == want[i])
	}
	return eq
}

//verif:harness prop=C15 tier=quick qparams=bits:16 tparams=bits:16 tmaxpaths=120000 bounds="quick: 35 directives over d i o x X c s with flags, width and precision; thorough: the same plus % + one of 12 flag sets + width {none,6,12} + precision {none,.0,.3} + d or x; numeric argument +-m for every m of 16 bits, also with a fraction of .5 added (truncation toward zero); %c argument 0..255; %s argument <= 3 symbolic bytes"
func H_C15_format() {
	L := newL(Options{}, BaseLibName, StringLibName)
	var spec cSpec
	if VTier() > 0 && VChoice(2) == 1 {
		// thorough: besides the curated directives below, the full product of flag sets, widths and precisions
		// for one signed and one unsigned conversion
		spec = fmtFlagSets[VChoice(len(fmtFlagSets))]
		spec.width = []int{-1, 6, 12}[VChoice(3)]
		spec.prec = []int{-1, 0, 3}[VChoice(3)]
		spec.verb = "dx"[VChoice(2)]
	} else {
		spec = fmtQuick[VChoice(len(fmtQuick))]
	}
	text := spec.text()
	switch spec.verb {
	case 'c':
		// only '-' and a width are defined for %c
		VAssume(!spec.plus && !spec.space && !spec.alt && !spec.zero && spec.prec < 0)
		b := VByte("b")
		out, err := callLib(L, "string", "format", 1, LString(text), LNumber(float64(b)))
		VAssert(err == nil, "format: no error "+text)
		want := refPad([]byte{b}, 0, spec, false)
		if b < 0x80 {
			VAssert(sameBytes(out[0], want), "format: %c writes the one byte (ASCII) "+text)
		} else {
			VAssert(sameBytes(out[0], want), "format: %c writes the one byte (>= 0x80) "+text)
		}
	case 's':
		VAssume(!spec.plus && !spec.space && !spec.alt && !spec.zero)
		n := VChoice(4)
		str := VStr("s", n)
		ascii := true
		for i := 0; i < n; i++ {
			ascii = VAnd(ascii, str[i] < 0x80)
		}
		out, err := callLib(L, "string", "format", 1, LString(text), LString(str))
		VAssert(err == nil, "format: no error "+text)
		body := []byte(str)
		if spec.prec >= 0 && len(body) > spec.prec {
			body = body[:spec.prec]
		}
		want := refPad(body, 0, spec, false)
		if ascii {
			VAssert(sameBytes(out[0], want), "format: %s truncates to the precision and pads to the width, in bytes (ASCII) "+text)
		} else {
			VAssert(sameBytes(out[0], want), "format: %s truncates to the precision and pads to the width, in bytes (bytes >= 0x80) "+text)
		}
	default:
		// magnitude: any value of `bits` bits (syntactically bounded, so that the solver divides at that width);
		// sign: chosen concretely
		mask := uint32(1)<<uint(VParam("bits", 16)) - 1
		n := int64(VU32("m") & mask)
		if VChoice(2) == 1 {
			n = -n
		}
		arg := float64(n)
		if VChoice(2) == 1 {
			// a fraction is dropped by the conversion to an integer type (toward zero)
			if n >= 0 {
				arg += 0.5
			} else {
				arg -= 0.5
			}
		}
		out, err := callLib(L, "string", "format", 1, LString(text), LNumber(arg))
		VAssert(err == nil, "format: no error "+text)
		want := refPrintfInt(spec, n)
		unsigned := spec.verb == 'o' || spec.verb == 'x' || spec.verb == 'X'
		// the classes below partition the domain; each has its own label so that a known deviation of one class
		// (see known_findings.json) cannot hide a violation in another
		switch {
		case unsigned && (spec.plus || spec.space):
			VAssert(sameBytes(out[0], want), "format: + and space do not apply to unsigned conversions "+text)
		case n == 0 && spec.alt && (spec.verb == 'x' || spec.verb == 'X'):
			VAssert(sameBytes(out[0], want), "format: # adds no 0x prefix to a zero value "+text)
		case n == 0 && spec.prec == 0 && (spec.plus || spec.space || (spec.alt && spec.verb == 'o')):
			VAssert(sameBytes(out[0], want), "format: precision 0 of a zero value prints no digit but keeps the sign / the octal 0 "+text)
		case spec.alt && spec.zero && !spec.minus && spec.width >= 0 && spec.prec < 0 && (spec.verb == 'x' || spec.verb == 'X'):
			VAssert(sameBytes(out[0], want), "format: the 0x prefix counts toward a zero-padded width "+text)
		case unsigned && n < 0:
			VAssert(sameBytes(out[0], want), "format: unsigned conversion of a negative number is its two's complement "+text)
		default:
			VAssert(sameBytes(out[0], want), "format: integer conversion as C printf "+text)
		}
	}
	VReach("end")
}

// c15FloatVals: the arguments of the float-conversion table (same order as tools/gen_fformat_table.c).
var c15FloatVals = []float64{0.0, math.Copysign(0, -1), 1.0, -1.0, 0.5, 1.5, 2.5, 0.125, -0.375, 9.995, 99.5, 1e10, 1e-10, 123456.789, -123456.789, 1e22, 1e300, 5e-324, 0.1, 1.0 / 3.0, 2147483648.5, 999999.9999999, 1e15 + 0.5, math.Inf(1), math.Inf(-1)}

// the quick tier takes these arguments (signed zero, a rounding carry, a tie at .0, six integer digits, a tiny
// and the smallest subnormal value, an infinity); the thorough tier takes all of c15FloatVals
var c15FloatQuick = []int{1, 6, 9, 13, 12, 17, 24}

// C15.fformat — string.format of %e %E %f with every flag set, width and precision against C printf.
//
// The argument is CONCRETE here: the digit generation of strconv (Ryu / big decimal, 128-bit products) is
// outside solver reach with a symbolic float64, so this harness decides only what the library adds on top of
// it — the directive handling of strFormat, LNumber.Format and defaultFormat (flags, width, precision, verb) —
// by running the real pipeline on 450 directives x the listed arguments.  The expected text is the output of
// glibc printf for the same directive and argument (tools/gen_fformat_table.c, table in c15_floattab.go).
//
//verif:harness prop=C15 tier=quick tmaxpaths=20000 bounds="450 directives = % + one of 10 flag sets {none,-,+,space,#,0,+0,-+,# space,0 space} + width {none,8,14} + precision {none,.0,.1,.3,.10} + e/E/f; argument one of 7 (quick) / 25 (thorough) CONCRETE float64 values incl. signed zeros, ties, carries, 1e300, the smallest subnormal and both infinities; expected text from glibc printf; NOT symbolic in the argument (strconv digit generation is outside solver reach)"
func H_C15_fformat() {
	L := newL(Options{}, BaseLibName, StringLibName)
	d := VChoice(len(c15FloatDirs))
	var v int
	if VTier() > 0 {
		v = VChoice(len(c15FloatVals))
	} else {
		v = c15FloatQuick[VChoice(len(c15FloatQuick))]
	}
	text := c15FloatDirs[d]
	x := c15FloatVals[v]
	out, err := callLib(L, "string", "format", 1, LString(text), LNumber(x))
	VAssert(err == nil, "fformat: no error "+text)
	want := []byte(c15FloatWant[d][v])
	if math.IsInf(x, 0) {
		VAssert(sameBytes(out[0], want), "fformat: an infinity prints as inf / INF with the sign rules of the directive "+text)
	} else {
		VAssert(sameBytes(out[0], want), "fformat: float conversion as C printf "+text)
	}
	VReach("end")
}
