//go:build verif

package lua

import "strings"

// C20 — require: loader runs at most once, cached identical value, loop detection, missing-module report.
//
//verif:harness prop=C20 tier=quick bounds="2 preloaded modules (m with one of 8 loader behaviours (returns a value / nothing / stores package.loaded itself / fails / requires itself / stores and returns different values / returns false / registers the module through RegisterModule), optionally required twice before its loader is registered, k returning a symbolic number) + host-registered module h; history of 3 requires: m, then a 1-byte symbolic name, then m again, then m after package.loaded.m = nil; Lua and Go loaders"
func H_C20_require() {
	L := newL(Options{}, LoadLibName, BaseLibName)
	v, w := VFloat("v"), VFloat("w")
	beh := VChoice(8)
	early := VChoice(2) == 1 // the module is required once before any loader for it exists
	goLoader := VChoice(2) == 1
	calls := 0
	kcalls := 0
	loader := func(L *LState) int {
		calls++
		VAssert(L.Get(1) == LString("m"), "require: loader receives the module name")
		switch beh {
		case 0:
			L.Push(LNumber(v))
			return 1
		case 1:
			return 0
		case 2:
			loaded := L.GetField(L.GetField(L.Get(EnvironIndex), "package"), "loaded")
			L.SetField(loaded, "m", LNumber(v))
			return 0
		case 3:
			L.RaiseError("loader failed")
		case 4:
			L.Push(L.GetGlobal("require"))
			L.Push(LString("m"))
			L.Call(1, 1)
			return 1
		case 5:
			// assigns package.loaded itself AND returns a different value
			loaded := L.GetField(L.GetField(L.Get(EnvironIndex), "package"), "loaded")
			L.SetField(loaded, "m", LNumber(v))
			L.Push(LNumber(w))
			return 1
		case 6:
			// false is a value, but not one that marks the module as loaded (ll_require tests lua_toboolean)
			L.Push(LFalse)
			return 1
		case 7:
			// the loader registers the module itself (package.loaded[name] holds require's marker meanwhile)
			L.Push(L.RegisterModule("m", map[string]LGFunction{"f": func(L *LState) int { return 0 }}))
			return 1
		}
		return 0
	}
	reqEarly := func() {
		L.Push(L.GetGlobal("require"))
		L.Push(LString("m"))
		err := L.PCall(1, 1, nil)
		VAssert(err != nil && strings.Contains(err.Error(), "package.preload['m']"), "require: a module without loader is reported as not found, listing what was tried")
		L.Push(L.GetGlobal("require"))
		L.Push(LString("m"))
		err = L.PCall(1, 1, nil)
		VAssert(err != nil && strings.Contains(err.Error(), "package.preload['m']"), "require: a second attempt at a missing module lists what was tried again (no loop error)")
	}
	if early {
		reqEarly()
	}
	if goLoader {
		L.PreloadModule("m", loader)
	} else {
		L.G.Global.RawSetString("goloader", L.NewFunction(loader))
		VAssert(L.DoString(`package.preload["m"] = function(...) return goloader(...) end`) == nil, "require: preload from Lua")
	}
	L.PreloadModule("k", func(L *LState) int {
		kcalls++
		L.Push(LNumber(w))
		return 1
	})
	hmod := L.RegisterModule("h", map[string]LGFunction{"f": func(L *LState) int { return 0 }})
	req := func(name string) (LValue, error) {
		L.Push(L.GetGlobal("require"))
		L.Push(LString(name))
		if err := L.PCall(1, 1, nil); err != nil {
			return LNil, err
		}
		r := L.Get(-1)
		L.Pop(1)
		return r, nil
	}
	// step 1
	r1, e1 := req("m")
	switch beh {
	case 0, 2:
		VAssert(e1 == nil && sameValue(r1, LNumber(v)), "require: returns the loader's value (or what it stored in package.loaded)")
	case 1:
		VAssert(e1 == nil && r1 == LTrue, "require: a loader returning nothing yields true")
	case 3:
		VAssert(e1 != nil, "require: a failing loader fails the require")
	case 4:
		VAssert(e1 != nil && strings.Contains(e1.Error(), "loop"), "require: a module requiring itself is reported as a loop")
	case 5:
		VAssert(e1 == nil && (sameValue(r1, LNumber(v)) || sameValue(r1, LNumber(w))), "require: returns the loader's value or what it stored")
		loaded := L.GetField(L.GetField(L.GetGlobal("package"), "loaded"), "m")
		VAssert(sameValue(loaded, r1), "require: package.loaded holds what require returned")
	}
	if beh == 6 {
		VAssert(e1 == nil && r1 == LFalse, "require: a loader returning false yields false")
	}
	if beh == 7 {
		mt, isT := r1.(*LTable)
		VAssert(e1 == nil && isT && mt.RawGetString("f") != LNil, "require: a loader that registers its module through RegisterModule yields the module table")
		VAssert(L.GetGlobal("m") == r1, "require: a module registered by the host is reachable by its global name")
	}
	VAssert(calls == 1, "require: the loader ran once")
	// step 2: a symbolic module name
	name2 := VStr("name", 1)
	r2, e2 := req(name2)
	switch {
	case name2 == "m":
		if beh <= 2 || beh == 5 || beh == 7 {
			VAssert(e2 == nil && sameValue(r2, r1), "require: a later require returns the identical cached value")
			VAssert(calls == 1, "require: the loader does not run again while it succeeded")
		}
	case name2 == "k":
		VAssert(e2 == nil && sameValue(r2, LNumber(w)), "require: second module loads through its own preload entry")
		VAssert(kcalls == 1 && calls == 1, "require: only the requested module's loader runs")
	case name2 == "h":
		VAssert(e2 == nil && r2 == LValue(hmod), "require: a host-registered module is returned by require")
		VAssert(L.GetGlobal("h") == LValue(hmod), "require: a host-registered module is reachable by its global name")
	default:
		VAssert(e2 != nil, "require: a missing module is an error")
		if e2 != nil {
			VReach("missing")
		}
	}
	// step 3
	r3, e3 := req("m")
	if beh <= 2 || beh == 5 {
		VAssert(e3 == nil && sameValue(r3, r1), "require: third require still returns the cached value")
		VAssert(calls == 1, "require: loader count stays 1")
	}
	if beh == 6 {
		VAssert(e3 == nil && r3 == LFalse && calls >= 2, "require: a module whose loader returned false is loaded again by the next require, through its preload entry")
	}
	// a name first loaded as a non-table (the loader returned nothing: true) and then registered by the host
	if beh == 1 {
		hm := L.RegisterModule("m", map[string]LGFunction{"g": func(L *LState) int { return 0 }})
		ht, isT := hm.(*LTable)
		VAssert(isT && ht.RawGetString("g") != LNil, "require: RegisterModule on a name whose loaded value is not a table creates the module")
		VAssert(L.GetGlobal("m") == hm, "require: ... and publishes it under its global name")
		r5, e5 := req("m")
		VAssert(e5 == nil && r5 == hm, "require: ... and require returns it")
		VReach("end")
		return
	}
	// step 4: forced reload
	if beh <= 1 {
		loaded := L.GetField(L.GetGlobal("package"), "loaded")
		L.SetField(loaded, "m", LNil)
		r4, e4 := req("m")
		VAssert(e4 == nil && calls == 2, "require: after package.loaded[name] is cleared the preload entry is used again")
		if beh == 0 {
			VAssert(sameValue(r4, LNumber(v)), "require: the reloaded module's value")
		}
	}
	VReach("end")
}

// C20.missing — the error for a missing module lists what was tried.
//
//verif:harness prop=C20 tier=quick bounds="one concrete missing module name; package.path with 2 templates"
func H_C20_missing() {
	L := newL(Options{}, LoadLibName, BaseLibName)
	VAssert(L.DoString(`package.path = "./?.lua;./x/?.lua"`) == nil, "missing: set path")
	L.Push(L.GetGlobal("require"))
	L.Push(LString("zz_nomod"))
	err := L.PCall(1, 1, nil)
	VAssert(err != nil, "missing: error")
	msg := err.Error()
	VNote("MSG: " + msg)
	VAssert(strings.Contains(msg, "zz_nomod"), "missing: names the module")
	VAssert(strings.Contains(msg, "package.preload['zz_nomod']"), "missing: lists the preload lookup")
	VAssert(strings.Contains(msg, "./zz_nomod.lua") && strings.Contains(msg, "./x/zz_nomod.lua"), "missing: lists every path tried")
	VReach("end")
}

// C20.missingdots — every dot of a module name is a directory separator in every path tried.
//
//verif:harness prop=C20 tier=quick bounds="module names of 5 symbolic bytes over {a, ., %} with a letter at both ends (all dot layouts incl. consecutive dots); package.path with 2 templates; os.Stat stubbed (no file exists)"
func H_C20_missingdots() {
	L := newL(Options{}, LoadLibName, BaseLibName)
	VAssert(L.DoString(`package.path = "./?.lua;./x/?.lua"`) == nil, "missingdots: set path")
	nm := []byte(VStr("nm", 5))
	want := make([]byte, 5)
	for i, c := range nm {
		VAssume(c == 'a' || c == '.' || c == '%')
		if c == '.' {
			want[i] = '/'
		} else {
			want[i] = c
		}
	}
	VAssume(nm[0] == 'a' && nm[4] == 'a')
	L.Push(L.GetGlobal("require"))
	L.Push(LString(string(nm)))
	err := L.PCall(1, 1, nil)
	VAssert(err != nil, "missingdots: a missing module is an error")
	msg := err.Error()
	VAssert(strings.Contains(msg, "./"+string(want)+".lua") && strings.Contains(msg, "./x/"+string(want)+".lua"), "missingdots: each template is tried with every dot of the name turned into a separator")
	VAssert(strings.Contains(msg, "package.preload['"+string(nm)+"']"), "missingdots: the preload key is listed literally (also when the name contains a %)")
	VReach("end")
}
