//go:build verif

package lua

// C06.transfer — values move between resume and yield exactly as the manual says.
//
//verif:harness prop=C06 tier=quick bounds="1 coroutine, 2 resumes, symbolic float64 payloads"
func H_C06_transfer() {
	L := newL(Options{}, BaseLibName, CoroutineLibName)
	a, b := VFloat("a"), VFloat("b")
	L.G.Global.RawSetString("x", LNumber(a))
	L.G.Global.RawSetString("y", LNumber(b))
	err := loadRun(L, `
	local co = coroutine.create(function(p) local q = coroutine.yield(p, p); return q, p end)
	local s0 = coroutine.status(co)
	local ok1, r1, r2 = coroutine.resume(co, x)
	local s1 = coroutine.status(co)
	local ok2, r3, r4 = coroutine.resume(co, y)
	local ok3, m = coroutine.resume(co)
	return ok1, r1, r2, ok2, r3, r4, coroutine.status(co), s0, s1, ok3`, 10)
	VAssert(err == nil, "transfer: runs")
	VAssert(L.Get(1) == LTrue && L.Get(4) == LTrue, "transfer: resumes succeed")
	VAssert(sameValue(L.Get(2), LNumber(a)) && sameValue(L.Get(3), LNumber(a)), "transfer: yield payload is what resume returns")
	VAssert(sameValue(L.Get(5), LNumber(b)), "transfer: resume argument is what yield returns")
	VAssert(sameValue(L.Get(6), LNumber(a)), "transfer: body keeps its local across the suspension")
	VAssert(L.Get(7) == LString("dead") && L.Get(8) == LString("suspended") && L.Get(9) == LString("suspended"), "transfer: status sequence")
	VAssert(L.Get(10) == LFalse, "transfer: resuming a dead coroutine fails")
	VReach("end")
}
