//go:build verif

package lua

// ---- C06: coroutine laws. No general coroutine oracle: each template's expected trace is derived
// by hand from the Lua 5.1 manual (section 2.11 and 5.2) and written next to it. ----

type c06law struct {
	src  string
	want func(x, y float64) []LValue
}

func n_(f float64) LValue { return LNumber(f) }
func s_(s string) LValue  { return LString(s) }

var c06Laws = []c06law{
	// first resume arguments are the body's arguments; yield payload = resume results; next resume
	// arguments = yield results; return values = last resume results
	{`local co = coroutine.create(function(a, b) local c, d = coroutine.yield(a + 1, b); local e = coroutine.yield(); return c, d, e end)
	  emit(coroutine.resume(co, x, y)); emit(coroutine.resume(co, y, x)); emit(coroutine.resume(co, 7)); emit(coroutine.resume(co)); emit(coroutine.status(co))`,
		func(x, y float64) []LValue {
			return []LValue{sep, LTrue, n_(x + 1), n_(y), sep, LTrue, sep, LTrue, n_(y), n_(x), n_(7), sep, LFalse, s_("cannot resume dead coroutine"), sep, s_("dead")}
		}},
	// payload counts 0..3, nil padding on the receiving side
	{`local co = coroutine.wrap(function(...) local n = select('#', ...); local a, b, c = coroutine.yield(n); emit(a, b, c); local p = coroutine.yield(); emit(p); return 1, 2, 3 end)
	  emit(co(x, nil, nil)); emit(co(y)); emit(co())`,
		func(x, y float64) []LValue {
			return []LValue{sep, n_(3), sep, n_(y), LNil, LNil, sep, sep, LNil, sep, n_(1), n_(2), n_(3)}
		}},
	// status transitions incl. normal and running; running()
	{`local A, B
	  A = coroutine.create(function() emit(coroutine.status(A)); B = coroutine.create(function() emit(coroutine.status(A), coroutine.status(B)); coroutine.yield(); emit('b2') end); coroutine.resume(B); emit(coroutine.status(B)); coroutine.yield(); emit(coroutine.status(A)) end)
	  emit(coroutine.status(A)); coroutine.resume(A); emit(coroutine.status(A), coroutine.status(B)); coroutine.resume(A); emit(coroutine.status(A)); emit(coroutine.running())`,
		func(x, y float64) []LValue {
			return []LValue{sep, s_("suspended"), sep, s_("running"), sep, s_("normal"), s_("running"), sep, s_("suspended"), sep, s_("suspended"), s_("suspended"), sep, s_("running"), sep, s_("dead"), sep, LNil}
		}},
	// an error kills only that coroutine; the resumer's locals survive; wrap re-raises
	{`local keep = x
	  local co = coroutine.create(function() local v = y; coroutine.yield(v); error({code = v}) end)
	  emit(coroutine.resume(co)); local ok, e = coroutine.resume(co); emit(ok, type(e), e.code, coroutine.status(co), keep)
	  local w = coroutine.wrap(function() error(x) end); local ok2, e2 = pcall(w); emit(ok2, e2, keep)`,
		func(x, y float64) []LValue {
			return []LValue{sep, LTrue, n_(y), sep, LFalse, s_("table"), n_(y), s_("dead"), n_(x), sep, LFalse, n_(x), n_(x)}
		}},
	// a run-time fault inside the body (same frame as a captured local): closure handed out survives
	{`local f
	  local co = coroutine.create(function() local v = x; f = function() return v end; local t = nil; return t.k end)
	  local ok = coroutine.resume(co); local function junk(a, b, c, d) return d end; junk(1, 2, 3, 4)
	  emit(ok, coroutine.status(co), f())`,
		func(x, y float64) []LValue { return []LValue{sep, LFalse, s_("dead"), n_(x)} }},
	// locals, loop state and upvalues are kept across suspensions; generator driving for-in
	{`local function gen(n) return coroutine.wrap(function() for i = 1, n do coroutine.yield(i, i * x) end end) end
	  for i, v in gen(3) do emit(i, v) end
	  local acc = 0; local co = coroutine.wrap(function() local s = y; while true do s = s + 1; acc = acc + s; coroutine.yield(s) end end); co(); co(); emit(co(), acc)`,
		func(x, y float64) []LValue {
			return []LValue{sep, n_(1), n_(1 * x), sep, n_(2), n_(2 * x), sep, n_(3), n_(3 * x), sep, n_(y + 1 + 1 + 1), n_(0 + (y + 1) + (y + 1 + 1) + (y + 1 + 1 + 1))}
		}},
	// nested resumes: values pass through two levels; inner death reported to its resumer only
	{`local inner = coroutine.create(function(a) local b = coroutine.yield(a * 2); error(b) end)
	  local outer = coroutine.create(function(a) local ok, v = coroutine.resume(inner, a); local r = coroutine.yield(v); local ok2, e = coroutine.resume(inner, r); return ok2, e, coroutine.status(inner) end)
	  emit(coroutine.resume(outer, x)); emit(coroutine.resume(outer, y)); emit(coroutine.status(outer))`,
		func(x, y float64) []LValue {
			return []LValue{sep, LTrue, n_(x * 2), sep, LTrue, LFalse, n_(y), s_("dead"), sep, s_("dead")}
		}},
	// resuming a running or dead coroutine fails without side effects; yield outside a coroutine fails
	{`local co; co = coroutine.create(function() emit(coroutine.resume(co)); return x end)
	  emit(coroutine.resume(co)); emit((coroutine.resume(co))); emit((pcall(coroutine.yield, 1)))`,
		func(x, y float64) []LValue {
			return []LValue{sep, LFalse, s_("cannot resume running coroutine"), sep, LTrue, n_(x), sep, LFalse, sep, LFalse}
		}},
	// a host (Go) function body and a tail-called yield
	{`local co = coroutine.create(function(a) return coroutine.yield(a + 1) end)
	  emit(coroutine.resume(co, x)); emit(coroutine.resume(co, y, 3)); emit(coroutine.status(co))`,
		func(x, y float64) []LValue {
			return []LValue{sep, LTrue, n_(x + 1), sep, LTrue, n_(y), n_(3), sep, s_("dead")}
		}},
	// fewer values resumed than the pending yield expects: padded with nil
	{`local co = coroutine.create(function() local a, b, c = coroutine.yield(); emit(a, b, c); return 'done' end)
	  coroutine.resume(co); emit(coroutine.resume(co, x))`,
		func(x, y float64) []LValue { return []LValue{sep, n_(x), LNil, LNil, sep, LTrue, s_("done")} }},
	// wrap: error kills the coroutine; calling it again is an error ("dead")
	{`local w = coroutine.wrap(function() coroutine.yield(x); error('boom') end)
	  emit(w()); emit((pcall(w))); emit((pcall(w)))`,
		func(x, y float64) []LValue { return []LValue{sep, n_(x), sep, LFalse, sep, LFalse} }},
	// resume of a wrapped coroutine through its thread handle
	{`local th; local w = coroutine.wrap(function() th = coroutine.running(); coroutine.yield(1); coroutine.yield(x); return y end)
	  emit(w()); emit(coroutine.resume(th)); emit(w()); emit(coroutine.status(th))`,
		func(x, y float64) []LValue {
			return []LValue{sep, n_(1), sep, LTrue, n_(x), sep, n_(y), sep, s_("dead")}
		}},
	// "normal" is seen by everybody, not only the direct child; a normal coroutine cannot be resumed
	{`local A, B, C
	  A = coroutine.create(function() B = coroutine.create(function() C = coroutine.create(function() emit(coroutine.status(A), coroutine.status(B), coroutine.status(C)); emit((coroutine.resume(A))); emit((coroutine.resume(B))) end); coroutine.resume(C); emit('b-end') end); coroutine.resume(B); emit('a-end'); return x end)
	  emit(coroutine.resume(A)); emit(coroutine.status(A), coroutine.status(B), coroutine.status(C))`,
		func(x, y float64) []LValue {
			return []LValue{sep, s_("normal"), s_("normal"), s_("running"), sep, LFalse, sep, LFalse, sep, s_("b-end"), sep, s_("a-end"), sep, LTrue, n_(x), sep, s_("dead"), s_("dead"), s_("dead")}
		}},
	// writes through upvalues reach the owning thread's variable in both directions
	{`local total = x
	  local co = coroutine.wrap(function(a) total = total + a; local mine = 1; setmine = function(v) mine = v end; coroutine.yield(); total = total + a; return mine end)
	  co(y); emit(total); setmine(7); emit(co(), total)`,
		func(x, y float64) []LValue { return []LValue{sep, n_(x + y), sep, n_(7), n_(x + y + y)} }},
	// a vararg body with named parameters started with fewer / exactly / more values than parameters
	{`local function body(a, b, c, ...) emit(a, b, c, select('#', ...), ...); local d, e = coroutine.yield(); emit(d, e) end
	  local c1 = coroutine.create(body); coroutine.resume(c1, x); coroutine.resume(c1, y)
	  local c2 = coroutine.wrap(body); c2(x, y); c2(1, 2, 3)
	  local c3 = coroutine.wrap(body); c3(x, y, 3, 4, 5)`,
		func(x, y float64) []LValue {
			return []LValue{sep, n_(x), LNil, LNil, n_(0), sep, n_(y), LNil, sep, n_(x), n_(y), LNil, n_(0), sep, n_(1), n_(2), sep, n_(x), n_(y), n_(3), n_(2), n_(4), n_(5)}
		}},
	// an error raised inside a wrapped coroutine that was called from a created coroutine which does not catch
	// it: the resumer of the outer one receives (false, that very value); both are dead afterwards
	{`local inner; local outer = coroutine.create(function() inner = coroutine.wrap(function() coroutine.yield(1); error({code = x}) end); inner(); inner(); return 'not reached' end)
	  local ok, e = coroutine.resume(outer); emit(ok, type(e), type(e) == 'table' and e.code, coroutine.status(outer))
	  local o2 = coroutine.create(function() local w = coroutine.wrap(function() error(y) end); w() end); emit(coroutine.resume(o2))`,
		func(x, y float64) []LValue {
			return []LValue{sep, LFalse, s_("table"), n_(x), s_("dead"), sep, LFalse, n_(y)}
		}},
	// a wrapped coroutine failing inside another coroutine: that coroutine is still the running one, and the
	// failed wrapper is dead (not running) when called again
	{`local co = coroutine.create(function() local w = coroutine.wrap(function() error(x) end); local ok, e = pcall(w); emit(ok, e, coroutine.running() == me, coroutine.status(me)); local ok2 = pcall(w); emit(ok2); coroutine.yield(y); return 5 end)
	  me = co; emit(coroutine.resume(co)); emit(coroutine.status(co)); emit(coroutine.resume(co)); emit(coroutine.status(co), coroutine.running())`,
		func(x, y float64) []LValue {
			return []LValue{sep, LFalse, n_(x), LTrue, s_("running"), sep, LFalse, sep, LTrue, n_(y), sep, s_("suspended"), sep, LTrue, n_(5), sep, s_("dead"), LNil}
		}},
	// yield in tail position: in the body itself (several values, create/resume), through a helper that tail-calls
	// it, and in a function the body tail-calls
	{`local co = coroutine.create(function(...) return coroutine.yield(...) end)
	  emit(coroutine.resume(co, x, y)); emit(coroutine.resume(co, y, x, 3)); emit(coroutine.status(co)); emit(coroutine.resume(co))
	  local function ask() return coroutine.yield('q') end
	  local w = coroutine.wrap(function() local a, b = ask(); return a, b end); emit(w()); emit(w(x, y))
	  local w2 = coroutine.wrap(function() local function inner() return coroutine.yield(x) end; return inner() end); emit(w2()); emit(w2(y))`,
		func(x, y float64) []LValue {
			return []LValue{sep, LTrue, n_(x), n_(y), sep, LTrue, n_(y), n_(x), n_(3), sep, s_("dead"), sep, LFalse, s_("cannot resume dead coroutine"),
				sep, s_("q"), sep, n_(x), n_(y), sep, n_(x), sep, n_(y)}
		}},
}

var sep LValue = LString("\x00sep")

// C06.laws — coroutine value transfer, status and error laws with symbolic payloads.
//
//verif:harness prop=C06 tier=quick bounds="18 law templates (<= 3 coroutines, <= 6 resumes each): transfer in both directions with 0..3 values, status incl. normal/running, errors and faults inside coroutines, wrap, generators, nested resumes, dead/running resume, tail-called yield, errors crossing wrap inside resume, wrap failing inside another coroutine; payloads 2 symbolic float64"
func H_C06_laws() {
	k := VChoice(len(c06Laws))
	law := c06Laws[k]
	L := newL(Options{}, BaseLibName, CoroutineLibName)
	x, y := VFloat("x"), VFloat("y")
	L.G.Global.RawSetString("x", LNumber(x))
	L.G.Global.RawSetString("y", LNumber(y))
	var trace []LValue
	L.G.Global.RawSetString("emit", L.NewFunction(func(L *LState) int {
		trace = append(trace, sep)
		for i := 1; i <= L.GetTop(); i++ {
			trace = append(trace, L.Get(i))
		}
		return 0
	}))
	label := "law " + itoa(k)
	err := loadRun(L, law.src, 0)
	VAssert(err == nil, label+": runs without an escaping error")
	want := law.want(x, y)
	VAssert(len(trace) == len(want), label+": number of values observed")
	if len(trace) == len(want) {
		for i := range want {
			if ws, ok := want[i].(LString); ok && ws != sep.(LString) && len(ws) > 12 {
				// error message texts are not compared, only that a message is delivered
				_, isStr := trace[i].(LString)
				VAssert(isStr, label+": an error message is delivered")
				continue
			}
			VAssert(sameValue(trace[i], want[i]), label+": value "+itoa(i)+" of the observed trace")
		}
	}
	VAssert(L.G.CurrentThread == L, label+": control is back in the main thread")
	VReach("end")
}
