//go:build verif

package lua

import (
	"context"
	"io"
)

// ---- shared harness helpers ----

func eqf(x, y float64) bool { return VEqF(x, y) }

// newL builds a state with the OS-free libraries opened (no io/os/channel/debug unless asked).
func newL(opt Options, libs ...string) *LState {
	opt.SkipOpenLibs = true
	if opt.CallStackSize == 0 {
		opt.CallStackSize = 32
	}
	if opt.RegistrySize == 0 {
		opt.RegistrySize = 256
	}
	L := NewState(opt)
	all := map[string]LGFunction{LoadLibName: OpenPackage, BaseLibName: OpenBase, TabLibName: OpenTable, StringLibName: OpenString,
		MathLibName: OpenMath, CoroutineLibName: OpenCoroutine, DebugLibName: OpenDebug, OsLibName: OpenOs}
	if len(libs) == 0 {
		libs = []string{LoadLibName, BaseLibName, TabLibName, StringLibName, CoroutineLibName}
	}
	for _, name := range libs {
		L.Push(L.NewFunction(all[name]))
		L.Push(LString(name))
		L.Call(1, 0)
	}
	return L
}

type symReader struct {
	buf []byte
	pos int
}

func (r *symReader) Read(p []byte) (int, error) {
	if r.pos >= len(r.buf) {
		return 0, io.EOF
	}
	n := copy(p, r.buf[r.pos:])
	r.pos += n
	return n, nil
}

// fireCtx is a context whose Done channel is closed from poll k on (fault/cancel injection).
type fireCtx struct {
	context.Context
	polls  int
	k      int
	open   chan struct{}
	closed chan struct{}
}

func newFireCtx(k int) *fireCtx {
	c := &fireCtx{k: k, open: make(chan struct{}), closed: make(chan struct{})}
	close(c.closed)
	return c
}
func (c *fireCtx) Done() <-chan struct{} {
	c.polls++
	if c.polls > c.k {
		return c.closed
	}
	return c.open
}
func (c *fireCtx) Err() error { return errCanceled }

// symKinds for symValue
const (
	kNil = 1 << iota
	kBool
	kNum
	kStr
)

var strPool = []string{"", "a", "10", " 10 ", "0x10", "1e1", "abc", "b"}

// symValue returns an LValue whose dynamic type is chosen by forking and whose payload is symbolic.
func symValue(name string, kinds int) LValue {
	var opts []int
	for _, k := range []int{kNil, kBool, kNum, kStr} {
		if kinds&k != 0 {
			opts = append(opts, k)
		}
	}
	switch opts[VChoice(len(opts))] {
	case kNil:
		return LNil
	case kBool:
		if VBool(name) {
			return LTrue
		}
		return LFalse
	case kNum:
		return LNumber(VFloat(name))
	default:
		return LString(strPool[VChoice(len(strPool))])
	}
}

// sameValue: raw equality of two LValues as a (possibly symbolic) bool; numbers equal or both NaN.
func sameValue(a, b LValue) bool {
	switch x := a.(type) {
	case LNumber:
		y, ok := b.(LNumber)
		if !ok {
			return false
		}
		return VEqF(float64(x), float64(y))
	case LString:
		y, ok := b.(LString)
		return ok && x == y
	}
	return a == b
}

// loadRun loads src and calls it protected with nret results left on the stack.
func loadRun(L *LState, src string, nret int) error {
	fn, err := L.LoadString(src)
	if err != nil {
		return err
	}
	L.Push(fn)
	return L.PCall(0, nret, nil)
}

// numPool: non-integral, huge and boundary numbers that the 32-bit integer class does not cover.
var numPool = []float64{1.5, 2.5, 0.5, 9223372036854775808, -1.5, 4294967296, 1e300, -1e300, 9007199254740992, -9223372036854775808, 5e-324}

// symNum returns a symbolic number from two classes: any 32-bit integer value (exact in float64,
// decided by bit-vector reasoning) or one of numPool; with full=true also an arbitrary non-NaN
// float64 (floating-point solver reasoning: slow, use sparingly).
func symNum(name string, full bool) float64 {
	n := 2
	if full {
		n = 3
	}
	switch VChoice(n) {
	case 0:
		return float64(VI32(name))
	case 1:
		return numPool[VChoice(VParam("npool", len(numPool)))]
	}
	f := VFloat(name)
	VAssume(f == f)
	return f
}
