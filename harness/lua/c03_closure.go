//go:build verif

package lua

// C03.exit — a closure keeps its captured variable after the creating scope is left by an error
// caught by pcall/xpcall, while later calls reuse the registers.
//
//verif:harness prop=C03 tier=quick bounds="6 exit-path templates, 1 symbolic float64 captured value"
func H_C03_exit() {
	L := newL(Options{}, BaseLibName)
	a := VFloat("a")
	L.G.Global.RawSetString("x", LNumber(a))
	reuse := `
	local function g(p, q, r, s, t) local u, w = 91, 92; return u end
	g(81, 82, 83, 84, 85)
	`
	tmpl := []string{
		// fall through
		`local f; do local v = x; f = function() return v end end` + reuse + `return f()`,
		// break out of a loop
		`local f; for i = 1, 3 do local v = x; f = function() return v end; break end` + reuse + `return f()`,
		// return from the creating function
		`local function mk() local v = x; return function() return v end end; local f = mk()` + reuse + `return f()`,
		// error caught by pcall
		`local f; pcall(function() local v = x; f = function() return v end; error("e") end)` + reuse + `return f()`,
		// error caught by xpcall with a handler
		`local f; xpcall(function() local v = x; f = function() return v end; error("e") end, function(m) return m end)` + reuse + `return f()`,
		// goto out of the block
		`local f; do local v = x; f = function() return v end; goto out end ::out::` + reuse + `return f()`,
	}
	k := VChoice(len(tmpl))
	err := loadRun(L, tmpl[k], 1)
	VAssert(err == nil, "exit: runs")
	r, ok := L.Get(-1).(LNumber)
	VAssert(ok, "exit: closure returns a number, template "+string(rune('0'+k)))
	VAssert(eqf(float64(r), a), "exit: closure still sees the captured value, template "+string(rune('0'+k)))
	VReach("end")
}
