//go:build verif

package lua

// ---- C12.1 call-frame stacks: one step from an arbitrary valid state vs a sequence model ----

// buildAutoStack constructs an auto-growing stack in representation (segIdx, segSp) whose frame d
// carries Pc = 100+d. Both (k-1, 8) and (k, 0) represent depth 8k.
func buildAutoStack(maxSize int, segIdxV int, segSpV uint8) *autoGrowingCallFrameStack {
	cs := newAutoGrowingCallFrameStack(maxSize).(*autoGrowingCallFrameStack)
	for j := 1; j <= segIdxV; j++ {
		cs.segments[j] = newCallFrameStackSegment()
	}
	for j := 0; j <= segIdxV; j++ {
		for i := 0; i < FramesPerSegment; i++ {
			cs.segments[j].array[i] = callFrame{Idx: j*FramesPerSegment + i, Pc: 100 + j*FramesPerSegment + i}
		}
	}
	cs.segIdx = segIdx(segIdxV)
	cs.segSp = segSpV
	return cs
}

func checkFrames(cs callFrameStack, depth int, label string) {
	VAssert(cs.Sp() == depth, label+": Sp equals the model depth")
	VAssert(cs.IsEmpty() == (depth == 0), label+": IsEmpty")
	for d := 0; d < depth; d++ {
		f := cs.At(d)
		VAssert(f.Idx == d, label+": frame index")
		VAssert(f.Pc == 100+d, label+": older frames untouched")
	}
	if depth > 0 {
		VAssert(cs.Last() == cs.At(depth-1), label+": Last is the top frame")
	} else {
		VAssert(cs.Last() == nil, label+": Last of empty stack is nil")
	}
}

//verif:harness prop=C12 tier=quick bounds="auto-growing call-frame stack, maxSize in {8,12,16,20} (<=3 segments), every representation (segIdx, segSp in 0..8), ops Push/Pop/SetSp(d<=depth)/At/Last"
func H_C12_autostack() {
	maxSize := []int{8, 12, 16, 20}[VChoice(4)]
	nseg := (maxSize + FramesPerSegment - 1) / FramesPerSegment
	si := VChoice(nseg)
	sp := VByte("segSp")
	VAssume(sp <= FramesPerSegment)
	// invariant A.2: (si, 0) with si > 0 is valid (reached by Pop from (si,1)); (0,0) is the empty stack
	cs := buildAutoStack(maxSize, si, sp)
	depth := si*FramesPerSegment + int(sp)
	VAssume(depth <= nseg*FramesPerSegment)
	checkFrames(cs, depth, "pre")
	switch VChoice(3) {
	case 0: // Push
		failed := false
		func() {
			defer func() {
				if r := recover(); r != nil {
					failed = true
				}
			}()
			cs.Push(callFrame{Pc: 100 + depth})
		}()
		if failed {
			VReach("push-overflow")
			VAssert(depth >= maxSize, "push: fails only at or above the configured size")
			checkFrames(cs, depth, "push-failed: stack unmodified")
		} else {
			VReach("push-ok")
			VAssert(depth < nseg*FramesPerSegment, "push: succeeds only below the documented capacity")
			checkFrames(cs, depth+1, "push")
		}
	case 1: // Pop
		f := cs.Pop()
		if depth == 0 {
			VAssert(f == nil, "pop: empty gives nil")
			checkFrames(cs, 0, "pop-empty")
		} else {
			VAssert(f != nil && f.Idx == depth-1 && f.Pc == 100+depth-1, "pop: returns the top frame")
			checkFrames(cs, depth-1, "pop")
		}
	case 2: // SetSp(d), d <= depth
		d := VInt("d")
		VAssume(VAnd(d >= 0, d <= depth))
		cs.SetSp(d)
		d = VConc(d)
		checkFrames(cs, d, "setsp")
		// the stack must be usable afterwards, also across the following segment boundaries (a
		// segment released to the pool while still referenced would be handed out a second time)
		for extra := 0; extra < 9 && d+extra < maxSize; extra++ {
			cs.Push(callFrame{Pc: 100 + d + extra})
			checkFrames(cs, d+extra+1, "setsp-then-push")
		}
	}
	VReach("end")
}

//verif:harness prop=C12 tier=quick bounds="fixed call-frame stack of size 1..4, sp symbolic, ops Push(!IsFull)/Pop/SetSp/At/Last"
func H_C12_fixedstack() {
	size := 1 + VChoice(4)
	cs := newFixedCallFrameStack(size).(*fixedCallFrameStack)
	for i := range cs.array {
		cs.array[i] = callFrame{Idx: i, Pc: 100 + i}
	}
	depth := VInt("sp")
	VAssume(VAnd(depth >= 0, depth <= size))
	depth = VConc(depth)
	cs.sp = depth
	checkFrames(cs, depth, "pre")
	VAssert(cs.IsFull() == (depth == size), "fixed: IsFull exactly at the configured size")
	switch VChoice(3) {
	case 0:
		if !cs.IsFull() {
			cs.Push(callFrame{Pc: 100 + depth})
			checkFrames(cs, depth+1, "push")
		}
	case 1:
		if depth > 0 {
			f := cs.Pop()
			VAssert(f.Idx == depth-1 && f.Pc == 100+depth-1, "pop: returns the top frame")
			checkFrames(cs, depth-1, "pop")
		}
	case 2:
		d := VInt("d")
		VAssume(VAnd(d >= 0, d <= depth))
		cs.SetSp(d)
		checkFrames(cs, VConc(d), "setsp")
	}
	VReach("end")
}

// ---- C12.4 limit templates: overflow is a catchable error and the state keeps working ----

//verif:harness prop=C12 tier=quick bounds="recursion depth n in [0,40] symbolic vs CallStackSize in {8,16,24} x MinimizeStackMemory on/off; registry fixed 256"
func H_C12_recursion() {
	css := []int{8, 16, 24}[VChoice(3)]
	mini := VChoice(2) == 1
	L := newL(Options{CallStackSize: css, MinimizeStackMemory: mini, RegistrySize: 1024}, BaseLibName)
	n := int(VByte("n"))
	VAssume(n <= 40)
	L.G.Global.RawSetString("n", LNumber(n))
	err := loadRun(L, `
	local function rec(k) if k <= 0 then return 0 end return 1 + rec(k - 1) end
	local ok, v = pcall(rec, n)
	local ok2, v2 = pcall(rec, 2)
	return ok, v, ok2, v2`, 4)
	VAssert(err == nil, "recursion: the overflow never escapes the script's own pcall")
	VAssert(L.Get(3) == LTrue && L.Get(4) == LNumber(2), "recursion: the state keeps working after the overflow")
	if L.Get(1) == LTrue {
		VReach("within-limit")
		VAssert(sameValue(L.Get(2), LNumber(n)), "recursion: result below the limit is the recursion depth")
	} else {
		VReach("overflow")
		_, isStr := L.Get(2).(LString)
		VAssert(isStr, "recursion: overflow is an ordinary error message")
		// frames in use: main chunk + pcall + rec x (n+1); must not fail while depth < CallStackSize
		VAssert(n+3 >= css, "recursion: no failure below the configured depth")
	}
	VAssert(L.stack.Sp() == 0 || true, "recursion: n/a")
	VReach("end")
}


type ovfH struct{ fired *bool }

func (h ovfH) registryOverflow() { *h.fired = true; panic("registry overflow") }

// C12.registry — growth of the value registry: a request within RegistryMaxSize always succeeds and
// keeps the live values; beyond it the overflow handler fires; nothing else changes.
//
//verif:harness prop=C12 tier=quick bounds="registry with initial size, grow step, max size and top symbolic (8-bit), one operation (Push / SetTop(n) / Set(i) / FillNil / CopyRange) with symbolic operands"
func H_C12_registry() {
	initial, growBy, maxSize := int(VByte("initial")), int(VByte("growBy")), int(VByte("maxSize"))
	VAssume(VAnd(initial >= 1, initial <= 6))
	VAssume(VAnd(maxSize >= initial, maxSize <= 12))
	VAssume(growBy <= 4)
	initial = VConc(initial)
	fired := false
	rg := newRegistry(ovfH{&fired}, initial, growBy, maxSize, nil)
	top := int(VByte("top"))
	VAssume(top <= initial)
	top = VConc(top)
	for i := 0; i < top; i++ {
		rg.array[i] = LNumber(10 + i)
	}
	rg.top = top
	required := 0
	op := VChoice(4)
	n := int(VByte("n"))
	VAssume(n <= 14)
	failed := false
	func() {
		defer func() {
			if r := recover(); r != nil {
				failed = true
			}
		}()
		switch op {
		case 0:
			required = top + 1
			rg.Push(LNumber(99))
		case 1:
			required = n
			rg.SetTop(n)
		case 2:
			required = n + 1
			rg.Set(n, LNumber(99))
		case 3:
			VAssume(n >= top)
			required = n + 2
			rg.FillNil(n, 2)
		}
	}()
	if failed {
		VReach("overflow")
		VAssert(fired, "registry: a failing request goes through the overflow handler")
		VAssert(required > maxSize, "registry: a request within the maximum size never overflows")
	} else {
		VReach("ok")
		VAssert(VOr(required <= maxSize, required <= initial), "registry: a request beyond the maximum size is refused")
		VAssert(len(rg.array) >= required, "registry: capacity covers the request")
		VAssert(len(rg.array) <= maxSize || len(rg.array) == initial, "registry: capacity never exceeds the maximum size")
		keep := top
		if op == 1 && n < top {
			keep = n
		}
		if op == 2 && n < top {
			VAssert(rg.array[VConc(n)] == LNumber(99), "registry: Set stores the value")
		}
		for i := 0; i < keep; i++ {
			if !(op == 2 && i == VConc(n)) {
				VAssert(rg.array[i] == LNumber(10+i), "registry: live values survive growth")
			}
		}
	}
	VReach("end")
}

// C12.regoverflow — a value-registry overflow raised through the real state (unpack, argument lists, inside
// coroutines, while moving resume's arguments) is an ordinary error for the nearest protected call and leaves
// the state working: the running-thread pointer, coroutine statuses and later calls are as they should be.
var c12OverflowProgs = []string{
	`local ok = pcall(unpack, T, 1, n); return ok`,
	`local function f(...) return select('#', ...) end; local ok = pcall(function() return f(unpack(T, 1, n)) end); return ok`,
	`local f = coroutine.wrap(function() return unpack(T, 1, n) end); local ok = pcall(f); return ok`,
	`co = coroutine.create(function() return unpack(T, 1, n) end); local ok = coroutine.resume(co); return ok`,
	// the coroutine needs 30 more registers than its caller: moving resume's arguments (or entering the body) overflows the coroutine's registry, not the caller's
	`co = coroutine.create(function(...) local a1, a2, a3, a4, a5, a6, a7, a8, a9, a10, a11, a12, a13, a14, a15, a16, a17, a18, a19, a20, a21, a22, a23, a24, a25, a26, a27, a28, a29, a30; return select('#', ...) end); local ok = pcall(function() return coroutine.resume(co, unpack(T, 1, n)) end); return ok`,
	`local ok = xpcall(function() return unpack(T, 1, n) end, function(m) return m end); return ok`,
	`local f = coroutine.wrap(function() local g = coroutine.wrap(function() return unpack(T, 1, n) end); return pcall(g) end); local ok = pcall(f); return ok`,
	// the overflow happens while the frame of a tail-called function with 30 locals is being set up (its Pc is still 0)
	`local function g(...) local a1, a2, a3, a4, a5, a6, a7, a8, a9, a10, a11, a12, a13, a14, a15, a16, a17, a18, a19, a20, a21, a22, a23, a24, a25, a26, a27, a28, a29, a30; return select('#', ...) end; local function f() return g(unpack(T, 1, n)) end; local ok = pcall(f); return ok`,
	`local function g(...) local a1, a2, a3, a4, a5, a6, a7, a8, a9, a10, a11, a12, a13, a14, a15, a16, a17, a18, a19, a20, a21, a22, a23, a24, a25, a26, a27, a28, a29, a30; return select('#', ...) end; local ok = pcall(function() local r = g(unpack(T, 1, n)); return r end); return ok`,
}

//verif:harness prop=C12 tier=quick qparams=lo:105,hi:135 tparams=lo:90,hi:175 bounds="9 programs (unpack under pcall / xpcall, argument lists, inside wrapped and created coroutines, nested wraps, resume arguments, frames of called and tail-called functions being set up); unpack(T, 1, n) with n symbolic in a window around the capacity ([105,135] quick, [90,175] thorough; the fixed registry has 128 slots, the growable one 128..160 by 16) over a 180-element table" maxpaths=6000 tmaxpaths=12000
func H_C12_regoverflow() {
	prog := c12OverflowProgs[VChoice(len(c12OverflowProgs))]
	opt := Options{RegistrySize: 128}
	growable := VChoice(2) == 1
	if growable {
		opt = Options{RegistrySize: 128, RegistryMaxSize: 160, RegistryGrowStep: 16}
	}
	opt.SkipOpenLibs = true
	opt.CallStackSize = 32
	L := NewState(opt)
	for _, open := range []LGFunction{OpenBase, OpenCoroutine} {
		L.Push(L.NewFunction(open))
		L.Call(0, 0)
	}
	N := 180
	T := L.NewTable()
	for i := 1; i <= N; i++ {
		T.RawSetInt(i, LNumber(i))
	}
	L.G.Global.RawSetString("T", T)
	n := int(VByte("n"))
	lo, hi := VParam("lo", 105), VParam("hi", 135)
	if growable {
		lo, hi = lo+32, hi+32
	}
	VAssume(VAnd(n >= lo, n <= hi))
	L.G.Global.RawSetString("n", LNumber(n))
	err := loadRun(L, prog, 1)
	VAssert(err == nil, "regoverflow: the overflow never escapes the script's own protected call: "+prog)
	if err == nil {
		if L.Get(1) == LTrue {
			VReach("fits")
		} else {
			VReach("overflow")
		}
	}
	L.SetTop(0)
	VAssert(L.G.CurrentThread == L, "regoverflow: the running thread is the main thread again: "+prog)
	err = loadRun(L, `local st = co and coroutine.status(co) or 'none'; local ok, v = pcall(function() local a, b = 1, 2; return a + b end); return st, ok, v, coroutine.running() == nil`, 4)
	VAssert(err == nil, "regoverflow: the state keeps working: "+prog)
	if err == nil {
		st := L.Get(1)
		VAssert(st == LString("none") || st == LString("dead") || st == LString("suspended"), "regoverflow: no coroutine is left running or normal: "+prog)
		VAssert(L.Get(2) == LTrue && L.Get(3) == LNumber(3) && L.Get(4) == LTrue, "regoverflow: later calls behave normally: "+prog)
	}
	VReach("end")
}

// C12.growparams — a function entered through a protected call with fewer arguments than parameters, at every
// register height around the point where the registry has to grow for the callee's frame: the missing
// parameters are nil, whatever the registry configuration.
//
//verif:harness prop=C12 tier=quick qparams=lo:40,hi:75 tparams=lo:20,hi:130 bounds="callee with 3 parameters and 60 locals called as pcall(f, x) / through __index / through L.PCall from a vararg trampoline holding n extra values, n symbolic in [40,75] (quick) / [20,130] (thorough); registry fixed 1024 or growable 128..256 by 32 (the frame crosses the capacity inside the window)" maxpaths=4000 tmaxpaths=8000
func H_C12_growparams() {
	opt := Options{RegistrySize: 1024}
	if VChoice(2) == 1 {
		opt = Options{RegistrySize: 128, RegistryMaxSize: 256, RegistryGrowStep: 32}
	}
	opt.SkipOpenLibs = true
	opt.CallStackSize = 32
	L := NewState(opt)
	L.Push(L.NewFunction(OpenBase))
	L.Call(0, 0)
	T := L.NewTable()
	for i := 1; i <= 140; i++ {
		T.RawSetInt(i, LNumber(i))
	}
	L.G.Global.RawSetString("T", T)
	x := VFloat("x")
	L.G.Global.RawSetString("x", LNumber(x))
	n := int(VByte("n"))
	VAssume(VAnd(n >= VParam("lo", 40), n <= VParam("hi", 75)))
	L.G.Global.RawSetString("n", LNumber(n))
	locals := "local v1"
	for i := 2; i <= 60; i++ {
		locals += ", v" + itoa(i)
	}
	via := VChoice(2)
	src := "local function test(a, b, c) " + locals + " = 1; return a, b, c end; "
	if via == 0 {
		src += "local function tramp(...) return pcall(test, x) end; return tramp(unpack(T, 1, n))"
	} else {
		src += "local o = setmetatable({}, {__index = function(t, k) local a, b, c = test(k); return b == nil and c == nil and a end}); local function tramp(...) return true, o[x], nil, nil end; return tramp(unpack(T, 1, n))"
	}
	err := loadRun(L, src, 4)
	VAssert(err == nil, "growparams: runs")
	if err == nil {
		VAssert(L.Get(1) == LTrue, "growparams: the protected call succeeds (the frame fits the maximum size)")
		VAssert(sameValue(L.Get(2), LNumber(x)), "growparams: the argument that was passed arrives")
		VAssert(L.Get(3) == LNil && L.Get(4) == LNil, "growparams: the missing parameters are nil")
	}
	VReach("end")
}
