//go:build verif

package lua

import "math"

// ---- C09: tables as finite maps: bounded histories with symbolic keys against an association-list model ----

type mkey struct {
	kind int // 0 number, 1 string, 2 bool
	f    float64
	s    string
	b    bool
}
type mentryT struct {
	k     mkey
	isnil bool
	v     float64
}

func (k mkey) lvalue() LValue {
	switch k.kind {
	case 0:
		return LNumber(k.f)
	case 1:
		return LString(k.s)
	}
	if k.b {
		return LTrue
	}
	return LFalse
}

func keyEq(a, b mkey) bool {
	if a.kind != b.kind {
		return false
	}
	switch a.kind {
	case 0:
		return a.f == b.f
	case 1:
		return a.s == b.s
	}
	return a.b == b.b
}

func iteB(c, x, y bool) bool { return VOr(VAnd(c, x), VAnd(!c, y)) }

// mget: the value most recently stored under a key equal to q (nil when none)
func mget(m []mentryT, q mkey) (bool, float64) {
	isnil, v := true, 0.0
	for _, e := range m {
		c := keyEq(e.k, q)
		isnil = iteB(c, e.isnil, isnil)
		v = VIteF(c, e.v, v)
	}
	return isnil, v
}

func agrees(got LValue, isnil bool, v float64) bool {
	if got == LNil {
		return isnil
	}
	n, ok := got.(LNumber)
	if !ok {
		return false
	}
	return VAnd(!isnil, VEqF(float64(n), v))
}

func symKey(name string, kinds int) mkey {
	switch VChoice(kinds) {
	case 0:
		return mkey{kind: 0, f: symNum(name, false)}
	case 1:
		return mkey{kind: 1, s: VStr(name, 1)}
	}
	return mkey{kind: 2, b: VBool(name)}
}

func symVal(name string) (bool, float64, LValue) {
	if VChoice(2) == 0 {
		return true, 0, LNil
	}
	f := VFloat(name)
	return false, f, LNumber(f)
}

//verif:harness prop=C09 tier=quick qparams=steps:2,npool:2,nops:2 tparams=steps:2,npool:6,nops:4 tmaxpaths=900000 bounds="histories of steps=2 stores; quick: 2 store operations and 2 pool numbers, thorough: 4 operations and 6 pool numbers; (RawSet/RawSetInt/RawSetString/RawSetH/LState.RawSet) from an empty table; keys: any 32-bit integer-valued number or one of 10 pool numbers (non-integral, huge, boundary) / 1-byte string / bool; MaxArrayIndex configured to 6 so the array part stays <= 5 slots; values nil or any float64; one symbolic probe key"
//verif:assume MaxArrayIndex (a package configuration variable) is set to 6: integer keys 1..5 use the array part, all other numbers the hash part
func H_C09_map() {
	MaxArrayIndex = 6
	L := newL(Options{}, BaseLibName)
	tb := L.NewTable()
	var m []mentryT
	steps := VParam("steps", 2)
	for s := 0; s < steps; s++ {
		k := symKey("k", 3)
		isnil, v, lv := symVal("v")
		switch []int{0, 2, 1, 3}[VChoice(VParam("nops", 4))] {
		case 0:
			tb.RawSet(k.lvalue(), lv)
		case 1:
			L.RawSet(tb, k.lvalue(), lv)
		case 2:
			// typed accessors on their own domain
			switch k.kind {
			case 0:
				i := VI32("ki")
				k = mkey{kind: 0, f: float64(i)}
				tb.RawSetInt(int(i), lv)
			case 1:
				tb.RawSetString(k.s, lv)
			default:
				tb.RawSetH(k.lvalue(), lv)
			}
		case 3:
			// hash-part accessor with a hash-part key
			if k.kind == 0 {
				VAssume(!isArrayKey(LNumber(k.f)))
			}
			tb.RawSetH(k.lvalue(), lv)
		}
		m = append(m, mentryT{k, isnil, v})
	}
	// probe
	q := symKey("q", 3)
	qn, qv := mget(m, q)
	VAssert(agrees(tb.RawGet(q.lvalue()), qn, qv), "map: RawGet returns the value most recently stored under an equal key")
	VAssert(agrees(L.RawGet(tb, q.lvalue()), qn, qv), "map: LState.RawGet agrees")
	switch q.kind {
	case 1:
		VAssert(agrees(tb.RawGetString(q.s), qn, qv), "map: RawGetString agrees")
		VAssert(agrees(tb.RawGetH(q.lvalue()), qn, qv), "map: RawGetH agrees on string keys")
	case 2:
		VAssert(agrees(tb.RawGetH(q.lvalue()), qn, qv), "map: RawGetH agrees on bool keys")
	case 0:
		if !isArrayKey(LNumber(q.f)) {
			VAssert(agrees(tb.RawGetH(q.lvalue()), qn, qv), "map: RawGetH agrees on hash-part number keys")
			if qi := int32(q.f); float64(qi) == q.f {
				// the integer accessor reads back what RawSetInt (or any other store) put under an integer
				// outside the array range: zero, negative and large integers
				VAssert(agrees(tb.RawGetInt(int(qi)), qn, qv), "map: RawGetInt agrees on integer keys outside the array range")
			}
		} else {
			VAssert(agrees(tb.RawGetInt(int(q.f)), qn, qv), "map: RawGetInt agrees on array keys")
		}
	}
	// length is a border
	n := tb.Len()
	VAssert(L.ObjLen(tb) == n, "map: ObjLen equals Len")
	if n == 0 {
		n1, _ := mget(m, mkey{kind: 0, f: 1})
		VAssert(n1, "map: length 0 only if t[1] is nil")
	} else {
		a, _ := mget(m, mkey{kind: 0, f: float64(n)})
		b, _ := mget(m, mkey{kind: 0, f: float64(n + 1)})
		if n+1 >= MaxArrayIndex {
			VAssert(VAnd(!a, b), "map: length is a border (t[n+1] lives in the hash part at the MaxArrayIndex threshold)")
		} else {
			VAssert(VAnd(!a, b), "map: length is a border")
		}
	}
	// traversal: every present key exactly once
	present := 0
	for i, e := range m {
		last := true
		for j := i + 1; j < len(m); j++ {
			last = VAnd(last, !keyEq(e.k, m[j].k))
		}
		present = VIteI(VAnd(last, !e.isnil), present+1, present)
	}
	var seen []LValue
	key := LValue(LNil)
	for it := 0; it <= steps+1; it++ {
		nk, nv := tb.Next(key)
		if nk == LNil {
			break
		}
		VAssert(it < steps+1, "next: terminates within the number of stored keys")
		for _, s := range seen {
			VAssert(!sameValue(s, nk), "next: no key visited twice")
		}
		VAssert(sameValue(tb.RawGet(nk), nv) && nv != LNil, "next: yields the current non-nil value")
		seen = append(seen, nk)
		key = nk
	}
	VAssert(len(seen) == present, "next: visits every present key")
	VReach("end")
}

// C09.arraykey — the array/hash boundary decision as a pure floating-point kernel, no bound.
//
//verif:harness prop=C09 tier=quick bounds="all float64 values"
func H_C09_arraykey() {
	f := VFloat("f")
	got := isArrayKey(LNumber(f))
	want := VAnd(VAnd(f == math.Floor(f), f >= 1), f < float64(MaxArrayIndex))
	VAssert(got == want, "arraykey: array key iff integral and 1 <= f < MaxArrayIndex")
	VAssert(VImp(f != f, !got), "arraykey: NaN is never an array key")
	VReach("end")
}


// C09.traverse — next visits every present key exactly once, also when visited fields are cleared
// or overwritten during the traversal.
//
//verif:harness prop=C09 tier=quick qparams=nkeys:3 tparams=nkeys:4 tmaxpaths=900000 bounds="tables built from nkeys (3 quick / 4 thorough) stores with keys from {array integers 1..4 (symbolic), 1-byte symbolic strings, booleans, hash-part numbers 0, -1, 2.5}, optionally followed by deleting one of them and optionally storing it again; during the traversal every visited field is cleared / overwritten / left alone, or only the j-th visited field is cleared (by choice per table)"
func H_C09_traverse() {
	L := newL(Options{}, BaseLibName)
	tb := L.NewTable()
	nk := VParam("nkeys", 3)
	var keys []LValue
	for i := 0; i < nk; i++ {
		var k LValue
		switch VChoice(4) {
		case 0:
			b := VByte("ik")
			VAssume(VAnd(b >= 1, b <= 4))
			k = LNumber(int(b))
		case 1:
			k = LString(VStr("sk", 1))
		case 3:
			// numbers that live in the hash part (0 is also the traversal's internal start marker)
			k = LNumber([]float64{0, -1, 2.5}[VChoice(3)])
		default:
			if VBool("bk") {
				k = LTrue
			} else {
				k = LFalse
			}
		}
		dup := false
		for _, o := range keys {
			if sameValue(o, k) {
				dup = true
			}
		}
		if !dup {
			keys = append(keys, k)
			L.RawSet(tb, k, LNumber(100+i))
		}
	}
	// optionally one of the keys is deleted again before the traversal starts (its slot in the insertion-order
	// bookkeeping stays behind)
	if del := VChoice(len(keys) + 1); del < len(keys) {
		L.RawSet(tb, keys[del], LNil)
		if VChoice(2) == 1 {
			// ... and stored again: the key is present once, wherever the bookkeeping keeps its old slot
			L.RawSet(tb, keys[del], LNumber(55))
		} else {
			keys = append(append([]LValue{}, keys[:del]...), keys[del+1:]...)
		}
	}
	mode := VChoice(4) // 0 leave, 1 clear every visited field, 2 overwrite every visited field, 3 clear only the j-th visited field
	only := 0
	if mode == 3 {
		only = VChoice(nk)
	}
	var seen []LValue
	key := LValue(LNil)
	for it := 0; it <= len(keys); it++ {
		nk, nv := tb.Next(key)
		if nk == LNil {
			break
		}
		VAssert(it < len(keys), "traverse: terminates after at most the number of present keys")
		for _, s := range seen {
			VAssert(!sameValue(s, nk), "traverse: no key is visited twice")
		}
		found := false
		for _, o := range keys {
			if sameValue(o, nk) {
				found = true
			}
		}
		VAssert(found, "traverse: only present keys are visited")
		VAssert(nv != LNil, "traverse: visited values are non-nil")
		seen = append(seen, nk)
		switch mode {
		case 1:
			L.RawSet(tb, nk, LNil)
		case 2:
			L.RawSet(tb, nk, LNumber(7))
		case 3:
			if it == only {
				L.RawSet(tb, nk, LNil)
			}
		}
		key = nk
	}
	VAssert(len(seen) == len(keys), "traverse: every present key is visited, also when visited fields are cleared or overwritten on the way")
	// ipairs stops at the first nil
	VReach("end")
}

// C09.luastore — a Lua-level store (assignment, rawset, constructor) under nil or NaN is an error; under any
// other key it is readable again through both the normal and the raw read.
//
//verif:harness prop=C09 tier=quick bounds="key of any scalar type (nil, boolean, any float64 incl. NaN, a pool string) x 3 store forms (t[k] = v, rawset(t, k, v), {[k] = v}); MaxArrayIndex configured to 6"
func H_C09_luastore() {
	MaxArrayIndex = 6 // as in C09.map: keeps the array part (and the paths that grow it) small
	L := newL(Options{}, BaseLibName)
	k := symValue("k", kNil|kBool|kNum|kStr)
	L.G.Global.RawSetString("k", k)
	src := []string{
		"local t = {}; t[k] = 7; return t[k], rawget(t, k)",
		"local t = {}; rawset(t, k, 7); return t[k], rawget(t, k)",
		"local t = {[k] = 7}; return t[k], rawget(t, k)",
	}[VChoice(3)]
	err := loadRun(L, src, 2)
	bad := k == LNil
	if n, ok := k.(LNumber); ok {
		bad = float64(n) != float64(n)
	}
	if bad {
		VAssert(err != nil, "luastore: a store under nil or NaN is an error: "+src)
	} else {
		VAssert(err == nil, "luastore: a store under any other key succeeds: "+src)
		if err == nil {
			VAssert(L.Get(1) == LNumber(7) && L.Get(2) == LNumber(7), "luastore: the stored value is read back by t[k] and rawget: "+src)
		}
	}
	VReach("end")
}


// C09.ipairs — ipairs visits 1..n up to the first nil, whatever the other values are (false included).
//
//verif:harness prop=C09 tier=quick bounds="lists of <= 4 slots, each nil / false / true / a symbolic number / a string; visited through the real ipairs iterator driven by a generic for"
func H_C09_ipairs() {
	L := newL(Options{}, BaseLibName)
	n := VChoice(5)
	tb := L.NewTable()
	want := 0
	open := true
	for i := 1; i <= n; i++ {
		var v LValue
		switch VChoice(5) {
		case 0:
			v = LNil
		case 1:
			v = LFalse
		case 2:
			v = LTrue
		case 3:
			f := VFloat("v")
			VAssume(f == f) // rawequal(NaN, NaN) is false: NaN elements are left to the map harness
			v = LNumber(f)
		default:
			v = LString("s")
		}
		L.RawSet(tb, LNumber(i), v)
		if v == LNil {
			open = false
		}
		if open {
			want = i
		}
	}
	L.G.Global.RawSetString("t", tb)
	err := loadRun(L, "local c, last, same = 0, 0, true; for i, v in ipairs(t) do c = c + 1; last = i; same = same and rawequal(v, t[i]) end; return c, last, same", 3)
	VAssert(err == nil, "ipairs: runs")
	VAssert(L.Get(1) == LNumber(want) && L.Get(2) == LNumber(want), "ipairs: visits exactly 1..n up to the first nil (false is a value)")
	VAssert(L.Get(3) == LTrue, "ipairs: yields the elements themselves")
	VReach("end")
}
