//go:build verif

package lua

// C07.1 — instruction codec: encode/decode round trip over the full operand ranges.

//verif:harness prop=C07 tier=quick bounds="op<64, a<=255, b,c<=511, bx<=2^18-1, |sbx|<=131071: full ranges, no loop"
func H_C07_codec() {
	op, a, b, c := VInt("op"), VInt("a"), VInt("b"), VInt("c")
	VAssume(VAnd(op >= 0, op <= 63))
	VAssume(VAnd(a >= 0, a <= opMaxArgsA))
	VAssume(VAnd(b >= 0, b <= opMaxArgsB))
	VAssume(VAnd(c >= 0, c <= opMaxArgsC))
	i := opCreateABC(op, a, b, c)
	VAssert(opGetOpCode(i) == op, "ABC: opcode")
	VAssert(opGetArgA(i) == a, "ABC: A")
	VAssert(opGetArgB(i) == b, "ABC: B")
	VAssert(opGetArgC(i) == c, "ABC: C")

	bx := VInt("bx")
	VAssume(VAnd(bx >= 0, bx <= opMaxArgBx))
	j := opCreateABx(op, a, bx)
	VAssert(opGetOpCode(j) == op, "ABx: opcode")
	VAssert(opGetArgA(j) == a, "ABx: A")
	VAssert(opGetArgBx(j) == bx, "ABx: Bx")

	sbx := VInt("sbx")
	VAssume(VAnd(sbx >= -opMaxArgSbx, sbx <= opMaxArgSbx))
	k := opCreateASbx(op, a, sbx)
	VAssert(opGetOpCode(k) == op, "ASbx: opcode")
	VAssert(opGetArgA(k) == a, "ASbx: A")
	VAssert(opGetArgSbx(k) == sbx, "ASbx: sBx")

	// setters change only their own field
	var w uint32 = VU32("w")
	w2 := w
	na := VInt("na")
	VAssume(VAnd(na >= 0, na <= opMaxArgsA))
	opSetArgA(&w2, na)
	VAssert(opGetArgA(w2) == na, "SetA: A")
	VAssert(VAnd(opGetOpCode(w2) == opGetOpCode(w), VAnd(opGetArgB(w2) == opGetArgB(w), opGetArgC(w2) == opGetArgC(w))), "SetA: others unchanged")
	w3 := w
	nb := VInt("nb")
	VAssume(VAnd(nb >= 0, nb <= opMaxArgsB))
	opSetArgB(&w3, nb)
	VAssert(opGetArgB(w3) == nb, "SetB: B")
	VAssert(VAnd(opGetOpCode(w3) == opGetOpCode(w), VAnd(opGetArgA(w3) == opGetArgA(w), opGetArgC(w3) == opGetArgC(w))), "SetB: others unchanged")
	w4 := w
	nc := VInt("nc")
	VAssume(VAnd(nc >= 0, nc <= opMaxArgsC))
	opSetArgC(&w4, nc)
	VAssert(opGetArgC(w4) == nc, "SetC: C")
	VAssert(VAnd(opGetOpCode(w4) == opGetOpCode(w), VAnd(opGetArgA(w4) == opGetArgA(w), opGetArgB(w4) == opGetArgB(w))), "SetC: others unchanged")
	w5 := w
	opSetArgBx(&w5, bx)
	VAssert(opGetArgBx(w5) == bx, "SetBx: Bx")
	VAssert(VAnd(opGetOpCode(w5) == opGetOpCode(w), opGetArgA(w5) == opGetArgA(w)), "SetBx: others unchanged")
	w6 := w
	opSetArgSbx(&w6, sbx)
	VAssert(opGetArgSbx(w6) == sbx, "SetSbx: sBx")
	VAssert(VAnd(opGetOpCode(w6) == opGetOpCode(w), opGetArgA(w6) == opGetArgA(w)), "SetSbx: others unchanged")
	w7 := w
	opSetOpCode(&w7, op)
	VAssert(opGetOpCode(w7) == op, "SetOpCode: opcode")
	VAssert(VAnd(opGetArgA(w7) == opGetArgA(w), VAnd(opGetArgB(w7) == opGetArgB(w), opGetArgC(w7) == opGetArgC(w))), "SetOpCode: others unchanged")

	// RK operands
	rk := VInt("rk")
	VAssume(VAnd(rk >= 0, rk <= opMaxIndexRk))
	VAssert(opIsK(opRkAsk(rk)), "RK: constant flagged")
	VAssert(opIndexK(opRkAsk(rk)) == rk, "RK: index round trip")
	VAssert(opRkAsk(rk) <= opMaxArgsB, "RK: fits B/C field")
	reg := VInt("reg")
	VAssume(VAnd(reg >= 0, reg <= opMaxArgsA))
	VAssert(!opIsK(reg), "RK: register not flagged")
	VReach("end")
}
