//go:build verif

package lua

import (
	"strings"

	"github.com/yuin/gopher-lua/ast"
	"github.com/yuin/gopher-lua/parse"
)

// wfProto checks the structural well-formedness of a compiled prototype (property C07) and
// returns a description of the first problem, or "".
func wfProto(p *FunctionProto) string {
	n := len(p.Code)
	nreg := int(p.NumUsedRegisters)
	if n == 0 || opGetOpCode(p.Code[n-1]) != OP_RETURN {
		return "code does not end in RETURN"
	}
	if len(p.DbgSourcePositions) != n {
		return "line table length differs from code length"
	}
	if len(p.stringConstants) != len(p.Constants) {
		return "string constant table length differs from constant table"
	}
	if nreg > maxRegisters+1 {
		return "NumUsedRegisters above the frame limit"
	}
	raw := make([]bool, n+1) // words that are not instruction boundaries (capture list, SETLIST extension)
	reg := func(r int) bool { return r >= 0 && r < nreg }
	rk := func(v int) bool {
		if opIsK(v) {
			return opIndexK(v) < len(p.Constants)
		}
		return reg(v)
	}
	ks := func(v int) bool {
		if !opIsK(v) {
			return reg(v) // the key string was loaded into a register (constant index above the RK range)
		}
		if opIndexK(v) >= len(p.Constants) {
			return false
		}
		_, ok := p.Constants[opIndexK(v)].(LString)
		return ok && p.stringConstants[opIndexK(v)] == string(p.Constants[opIndexK(v)].(LString))
	}
	for pc := 0; pc < n; pc++ {
		if raw[pc] {
			continue
		}
		inst := p.Code[pc]
		op := opGetOpCode(inst)
		a, b, c, bx, sbx := opGetArgA(inst), opGetArgB(inst), opGetArgC(inst), opGetArgBx(inst), opGetArgSbx(inst)
		bad := ""
		switch op {
		case OP_MOVE:
			if !reg(a) || !reg(b) {
				bad = "MOVE register"
			}
		case OP_MOVEN:
			if !reg(a) || !reg(b) {
				bad = "MOVEN register"
			}
			for i := 1; i <= c; i++ {
				if pc+i >= n || opGetOpCode(p.Code[pc+i]) != OP_MOVE {
					bad = "MOVEN group is not followed by C MOVE instructions"
				}
			}
		case OP_LOADK:
			if !reg(a) || bx >= len(p.Constants) {
				bad = "LOADK operand"
			}
		case OP_LOADBOOL:
			if !reg(a) || (c != 0 && pc+2 >= n) {
				bad = "LOADBOOL operand/skip"
			}
		case OP_LOADNIL:
			if !reg(a) || !reg(b) || b < a {
				bad = "LOADNIL range"
			}
		case OP_GETUPVAL, OP_SETUPVAL:
			if !reg(a) || b >= int(p.NumUpvalues) {
				bad = "upvalue operand"
			}
		case OP_GETGLOBAL, OP_SETGLOBAL:
			if !reg(a) || bx >= len(p.Constants) {
				bad = "global operand"
			} else if _, ok := p.Constants[bx].(LString); !ok {
				bad = "global name is not a string constant"
			}
		case OP_GETTABLE:
			if !reg(a) || !reg(b) || !rk(c) {
				bad = "GETTABLE operand"
			}
		case OP_GETTABLEKS:
			if !reg(a) || !reg(b) || !ks(c) {
				bad = "GETTABLEKS operand (C must name a string constant)"
			}
		case OP_SETTABLE:
			if !reg(a) || !rk(b) || !rk(c) {
				bad = "SETTABLE operand"
			}
		case OP_SETTABLEKS:
			if !reg(a) || !ks(b) || !rk(c) {
				bad = "SETTABLEKS operand (B must name a string constant)"
			}
		case OP_NEWTABLE:
			if !reg(a) {
				bad = "register A"
			}
		case OP_CLOSE:
			// A is a stack level ("close every open upvalue at or above R(A)"), not a slot that is read or
			// written: closeUpvalues compares indices only.  A == NumUsedRegisters is what a goto to a label
			// with every register active compiles to (`local a, b; goto l; ::l::`), and closes nothing.
			if a < 0 || a > nreg {
				bad = "CLOSE level above the frame"
			}
		case OP_SELF:
			if !reg(a) || !reg(a+1) || !reg(b) || !rk(c) {
				bad = "SELF operand"
			} else if opIsK(c) {
				// the method name of obj:name(...) is a string: a constant operand must name a string constant
				if _, ok := p.Constants[opIndexK(c)].(LString); !ok {
					bad = "SELF names a constant that is not a string"
				}
			}
		case OP_ADD, OP_SUB, OP_MUL, OP_DIV, OP_MOD, OP_POW:
			if !reg(a) || !rk(b) || !rk(c) {
				bad = "arithmetic operand"
			}
		case OP_UNM, OP_NOT, OP_LEN:
			if !reg(a) || !reg(b) {
				bad = "unary operand"
			}
		case OP_CONCAT:
			if !reg(a) || !reg(b) || !reg(c) || c < b {
				bad = "CONCAT range"
			}
		case OP_JMP:
			if t := pc + 1 + sbx; t < 0 || t >= n {
				bad = "JMP target outside the function"
			}
		case OP_EQ, OP_LT, OP_LE:
			if !rk(b) || !rk(c) || pc+2 >= n {
				bad = "comparison operand/skip"
			}
		case OP_TEST:
			if !reg(a) || pc+2 >= n {
				bad = "TEST operand/skip"
			}
		case OP_TESTSET:
			if !reg(a) || !reg(b) || pc+2 >= n {
				bad = "TESTSET operand/skip"
			}
		case OP_CALL, OP_TAILCALL:
			if !reg(a) || (b > 0 && !reg(a+b-1)) || (op == OP_CALL && c > 1 && !reg(a+c-2)) {
				bad = "CALL operand"
			}
		case OP_RETURN:
			if b > 1 && (!reg(a) || !reg(a+b-2)) {
				bad = "RETURN range"
			}
		case OP_FORLOOP, OP_FORPREP:
			if !reg(a) || !reg(a+3) {
				bad = "FOR registers"
			}
			if t := pc + 1 + sbx; t < 0 || t >= n {
				bad = "FOR jump target outside the function"
			}
		case OP_TFORLOOP:
			if !reg(a) || !reg(a+2+c) || pc+2 >= n {
				bad = "TFORLOOP operand/skip"
			}
		case OP_SETLIST:
			if !reg(a) || (b > 0 && !reg(a+b)) {
				bad = "SETLIST range"
			}
			if c == 0 {
				if pc+1 >= n {
					bad = "SETLIST extension word missing"
				} else {
					raw[pc+1] = true
				}
			}
		case OP_CLOSURE:
			if !reg(a) || bx >= len(p.FunctionPrototypes) {
				bad = "CLOSURE operand"
			} else {
				nu := int(p.FunctionPrototypes[bx].NumUpvalues)
				for i := 1; i <= nu; i++ {
					if pc+i >= n {
						bad = "CLOSURE capture list truncated"
						break
					}
					ci := p.Code[pc+i]
					cop := opGetOpCode(ci)
					if cop != OP_MOVE && cop != OP_GETUPVAL {
						bad = "CLOSURE capture pseudo-instruction is neither MOVE nor GETUPVAL"
					} else if cop == OP_MOVE && !reg(opGetArgB(ci)) {
						bad = "CLOSURE captures a register outside the frame"
					} else if cop == OP_GETUPVAL && opGetArgB(ci) >= int(p.NumUpvalues) {
						bad = "CLOSURE captures an upvalue out of range"
					}
					raw[pc+i] = true
				}
			}
		case OP_VARARG:
			// B == 0 ("all values") writes an open, run-time sized range that starts at the first
			// free register: A may equal the declared count there (the registry grows on demand)
			if (b == 0 && a > nreg) || (b != 0 && !reg(a)) || (b > 1 && !reg(a+b-2)) {
				bad = "VARARG range"
			}
		case OP_NOP:
		default:
			bad = "invalid opcode"
		}
		if bad != "" {
			return bad
		}
	}
	// jumps and skips must land on instruction boundaries
	for pc := 0; pc < n; pc++ {
		if raw[pc] {
			continue
		}
		inst := p.Code[pc]
		switch opGetOpCode(inst) {
		case OP_JMP, OP_FORLOOP, OP_FORPREP:
			if raw[pc+1+opGetArgSbx(inst)] {
				return "jump lands inside a multi-word group"
			}
		case OP_EQ, OP_LT, OP_LE, OP_TEST, OP_TESTSET, OP_TFORLOOP:
			if raw[pc+1] || raw[pc+2] {
				return "conditional skip lands inside a multi-word group"
			}
		case OP_LOADBOOL:
			if opGetArgC(inst) != 0 && raw[pc+2] {
				return "LOADBOOL skip lands inside a multi-word group"
			}
		}
	}
	for _, c := range p.FunctionPrototypes {
		if s := wfProto(c); s != "" {
			return "nested: " + s
		}
	}
	return ""
}

func genLocals(n int) string {
	var sb strings.Builder
	for i := 0; i < n; i++ {
		sb.WriteString("local v")
		sb.WriteString(itoa(i))
		sb.WriteString(" = ")
		sb.WriteString(itoa(i))
		sb.WriteString("\n")
	}
	sb.WriteString("return v0")
	return sb.String()
}

func itoa(i int) string {
	if i == 0 {
		return "0"
	}
	s := ""
	for i > 0 {
		s = string(rune('0'+i%10)) + s
		i /= 10
	}
	return s
}

func genConsts(n int) string {
	var sb strings.Builder
	sb.WriteString("local t = {}\n")
	for i := 0; i < n; i++ {
		sb.WriteString("t[")
		sb.WriteString(itoa(1000 + i))
		sb.WriteString("] = 'k")
		sb.WriteString(itoa(i))
		sb.WriteString("'\n")
	}
	// string-keyed accesses, a method call and a method definition whose names are first mentioned here, i.e.
	// at constant indexes around n
	sb.WriteString("local a = t.last; t.x = a + 7; local o = {}; function o:mdef(v) return self, v end; o:mcall(a); return t.k1 .. 'z', t[2000] == a, o:mlast()")
	return sb.String()
}

// genClosureOperands: function literals that capture an enclosing local, used directly where the compiler
// folds a trailing MOVE into the consuming instruction (conditions, not, #, unary minus, index and method
// receivers) — the capture words after CLOSURE look like MOVEs.
func genClosureOperands() string {
	return "local x, y = 1, 2; local r = 0; " +
		"if function() return x end then r = r + 1 end; " +
		"while not function() return y end do r = r + 1 end; " +
		"repeat r = r + 1 until function() return x, y end; " +
		"local b = not function() return x end; " +
		"local ok1 = pcall(function() return #function() return y end end); " +
		"local ok2 = pcall(function() return -function() return x end end); " +
		"local ok3 = pcall(function() return (function() return x end).field end); " +
		"local ok4 = pcall(function() return (function() return y end):method() end); " +
		"local c = (function() return x end) and 1 or 2; local d = nil or function() return y end; " +
		"local t = {}; pcall(function() ('abc').k = 1 end); pcall(function() (10).k = 2 end); (t).k = 3; " +
		// generic for with four and five loop variables that are the function's highest registers
		"for a1, a2, a3, a4, a5 in next, {} do end; for b1, b2, b3, b4 in pairs({}) do if b4 then break end end; " +
		"local function lastregs() for c1, c2, c3, c4, c5, c6 in next, {} do return c6 end end; " +
		"return r, b, ok1, ok2, ok3, ok4, c, d"
}

// genArgs: one call with n arguments (each needs its own register): at most maxRegisters fit, beyond that the
// compiler must refuse ("register overflow") rather than wrap the register count
func genArgs(n int) string {
	var sb strings.Builder
	sb.WriteString("return select('#'")
	for i := 1; i <= n; i++ {
		sb.WriteString(", ")
		sb.WriteString(itoa(i))
	}
	sb.WriteString(")")
	return sb.String()
}

func genItems(n int) string {
	var sb strings.Builder
	sb.WriteString("local t = {")
	for i := 0; i < n; i++ {
		sb.WriteString(itoa(i))
		sb.WriteString(",")
	}
	sb.WriteString("f()}; return #t")
	return sb.String()
}

// C07.wf — every prototype the compiler produces is well-formed, or the compiler reports an error.
//
//verif:harness prop=C07 tier=quick bounds="all C01-C05 differential templates plus size-stress programs: locals in {1,100,198,199,200,201,250}, constants in {250,255,256,257,300,511,512,513,600}, constructor items in {1,49,50,51,100,120}, call arguments in {100,198,199,200,250,254,255,256,300,520}, generic for with 4-6 loop variables, method names and string keys first mentioned at those constant indexes, function literals capturing locals used as conditions and as operands of not, #, unary minus, indexing and method calls; concrete programs (no symbolic input), each compiled once"
func H_C07_wf() {
	var src string
	switch VChoice(6) {
	case 5:
		src = genArgs([]int{100, 198, 199, 200, 250, 254, 255, 256, 300, 520}[VChoice(10)])
	case 4:
		src = genClosureOperands()
	case 0:
		all := append(append(append(append(append([]diffTmpl{}, c01Templates...), c02Templates...), c03Templates...), c04Templates...), c05Templates...)
		src = all[VChoice(len(all))].src
	case 1:
		src = genLocals([]int{1, 100, 198, 199, 200, 201, 250}[VChoice(7)])
	case 2:
		src = genConsts([]int{250, 255, 256, 257, 300, 511, 512, 513, 600}[VChoice(9)])
	case 3:
		src = genItems([]int{1, 49, 50, 51, 100, 120}[VChoice(6)])
	}
	chunk, err := parse.Parse(strings.NewReader(src), "wf")
	VAssert(err == nil, "wf: stress program parses")
	proto, cerr := Compile(chunk, "wf")
	if cerr != nil {
		_, isCE := cerr.(*CompileError)
		VAssert(isCE, "wf: compilation fails only with a CompileError")
		VReach("compile-error")
	} else {
		problem := wfProto(proto)
		VAssert(problem == "", "wf: compiled prototype is well-formed: "+problem)
		VReach("compiled")
	}
	VReach("end")
}

// compileFrom compiles statements starting from a funcContext whose register base is r0.
func compileFrom(r0 int, src string) (ctx *funcContext, cerr *CompileError) {
	chunk, err := parse.Parse(strings.NewReader(src), "t")
	if err != nil {
		panic("parse: " + err.Error())
	}
	ctx = newFuncContext("t", nil)
	ctx.Proto.IsVarArg = VarArgIsVarArg
	for i := 0; i < r0; i++ {
		ctx.RegisterLocalVar("p" + itoa(i))
	}
	defer func() {
		if r := recover(); r != nil {
			if ce, ok := r.(*CompileError); ok {
				cerr = ce
				return
			}
			panic(r)
		}
	}()
	fe := &ast.FunctionExpr{ParList: &ast.ParList{HasVargs: true}, Stmts: chunk}
	compileChunk(ctx, fe.Stmts, false)
	ctx.Code.AddABC(OP_RETURN, 0, 1, 0, 0)
	ctx.EndScope()
	ctx.CheckUnresolvedGoto()
	ctx.Proto.Code = ctx.Code.List()
	ctx.Proto.DbgSourcePositions = ctx.Code.PosList()
	ctx.Proto.DbgUpvalues = ctx.Upvalues.Names()
	ctx.Proto.NumUpvalues = uint8(len(ctx.Proto.DbgUpvalues))
	for _, clv := range ctx.Proto.Constants {
		sv := ""
		if slv, ok := clv.(LString); ok {
			sv = string(slv)
		}
		ctx.Proto.stringConstants = append(ctx.Proto.stringConstants, sv)
	}
	patchCode(ctx)
	return
}

var c07RegTemplates = []string{
	"local a, b = x, y; local c = a + b * 2; a, b = b, c; return c",
	"local t = {x, y, k = x}; t.k, t[1] = t[1], t.k; return t.k",
	"local function f(a, ...) return a, ... end; return f(x, y, z)",
	"for i = 1, 3 do local q = i * x; if q > y then break end end",
	"for k, v in pairs(t) do t[k] = v .. 's' end",
	"local a = x and y or z; local b = not a; return a, b, #t, -x",
	"local s = x .. y .. z .. 'k'; return s",
	"return (function(u) local w = u; return function() w = w + 1; return w, x end end)(y)",
}

// C07.regbase — compilation started with r0 locals already declared: register operands stay in
// the frame, or the compiler reports a register overflow.
//
//verif:harness prop=C07 tier=quick bounds="8 statement templates compiled with r0 pre-declared locals, r0 in {0,1,100,150,190,194..200}"
func H_C07_regbase() {
	r0 := []int{0, 1, 100, 150, 190, 194, 195, 196, 197, 198, 199, 200}[VChoice(12)]
	src := c07RegTemplates[VChoice(len(c07RegTemplates))]
	ctx, cerr := compileFrom(r0, src)
	if cerr != nil {
		VReach("compile-error")
		VAssert(r0 >= 150, "regbase: register overflow is reported only near the ceiling")
	} else {
		problem := wfProto(ctx.Proto)
		VAssert(problem == "", "regbase: prototype compiled from a high register base is well-formed: "+problem)
		VReach("compiled")
	}
	VReach("end")
}


// bigCtorChunk builds the AST of
//   local t = {7, 7, ... n items}   (or: local t; t = {...})
//   local after = 'ran'; return #t, t[n], after
// directly (parsing 25k items through the interpreted yacc tables would dominate the run).
// bigCtorOperandChunk: the constructor is the direct operand of # and of an index, with no local in scope
// (`x = #{...}; y = ({...})[n]; return x, y, 'ran'`): the word after the extended SETLIST is followed at once
// by the consuming instruction.
func bigCtorOperandChunk(n int) []ast.Stmt {
	mk := func() *ast.TableExpr {
		fields := make([]*ast.Field, n)
		for i := range fields {
			fields[i] = &ast.Field{Value: &ast.NumberExpr{Value: "7"}}
		}
		return &ast.TableExpr{Fields: fields}
	}
	stmts := []ast.Stmt{
		&ast.AssignStmt{Lhs: []ast.Expr{&ast.IdentExpr{Value: "x"}}, Rhs: []ast.Expr{&ast.UnaryLenOpExpr{Expr: mk()}}},
		&ast.AssignStmt{Lhs: []ast.Expr{&ast.IdentExpr{Value: "y"}}, Rhs: []ast.Expr{&ast.AttrGetExpr{Object: mk(), Key: &ast.NumberExpr{Value: itoa(n)}}}},
		&ast.ReturnStmt{Exprs: []ast.Expr{&ast.IdentExpr{Value: "x"}, &ast.IdentExpr{Value: "y"}, &ast.StringExpr{Value: "ran"}}},
	}
	for _, st := range stmts {
		st.SetLine(1)
		st.SetLastLine(1)
	}
	return stmts
}

func bigCtorChunk(n int, assignForm bool) []ast.Stmt {
	fields := make([]*ast.Field, n)
	for i := range fields {
		fields[i] = &ast.Field{Value: &ast.NumberExpr{Value: "7"}}
	}
	tbl := &ast.TableExpr{Fields: fields}
	var stmts []ast.Stmt
	if assignForm {
		stmts = append(stmts, &ast.LocalAssignStmt{Names: []string{"t"}}, &ast.AssignStmt{Lhs: []ast.Expr{&ast.IdentExpr{Value: "t"}}, Rhs: []ast.Expr{tbl}})
	} else {
		stmts = append(stmts, &ast.LocalAssignStmt{Names: []string{"t"}, Exprs: []ast.Expr{tbl}})
	}
	stmts = append(stmts,
		&ast.LocalAssignStmt{Names: []string{"after"}, Exprs: []ast.Expr{&ast.StringExpr{Value: "ran"}}},
		&ast.ReturnStmt{Exprs: []ast.Expr{
			&ast.UnaryLenOpExpr{Expr: &ast.IdentExpr{Value: "t"}},
			&ast.AttrGetExpr{Object: &ast.IdentExpr{Value: "t"}, Key: &ast.NumberExpr{Value: itoa(n)}},
			&ast.IdentExpr{Value: "after"}}})
	for _, st := range stmts {
		st.SetLine(1)
		st.SetLastLine(1)
	}
	return stmts
}

// C07.bigctor — constructors beyond 511 SETLIST batches use the extension word correctly.
//
//verif:harness prop=C07,C01 tier=quick bounds="table constructors with n positional items, n in {25550, 25551, 25601} (batch 511/512 boundary), in initialisation and assignment form and as the direct operand of # and of an index with no local in scope; AST built directly, compiled, checked for well-formedness and executed"
func H_C07_bigctor() {
	n := []int{25550, 25551, 25601}[VChoice(3)]
	form := VChoice(3)
	L := newL(Options{RegistrySize: 1024}, BaseLibName)
	chunk := bigCtorChunk(n, form == 1)
	if form == 2 {
		chunk = bigCtorOperandChunk(n)
	}
	proto, err := Compile(chunk, "big")
	VAssert(err == nil, "bigctor: compiles")
	VAssert(wfProto(proto) == "", "bigctor: prototype is well-formed: "+wfProto(proto))
	L.Push(L.NewFunctionFromProto(proto))
	VAssert(L.PCall(0, 3, nil) == nil, "bigctor: runs")
	VAssert(L.Get(1) == LNumber(n), "bigctor: every positional item is stored (#t)")
	VAssert(L.Get(2) == LNumber(7), "bigctor: the last item is stored")
	VAssert(L.Get(3) == LString("ran"), "bigctor: the statement after the constructor is executed")
	VReach("end")
}
