//go:build verif

package lua

import "github.com/yuin/gopher-lua/ast"

// C01.fold — compile-time folding of a constant arithmetic expression equals run-time evaluation.
//
//verif:harness prop=C01 tier=quick bounds="all float64 a,b; 6 binary operators; math.Mod/math.Pow uninterpreted (same symbol both sides), and again with a, b any 32-bit integers where % is the exact remainder"
func H_C01_fold() {
	var a, b float64
	if VChoice(2) == 1 {
		// integer-valued operands: % has its exact remainder semantics here instead of an uninterpreted symbol
		a, b = float64(VI32("ai")), float64(VI32("bi"))
	} else {
		a, b = VFloat("a"), VFloat("b")
	}
	ops := []string{"+", "-", "*", "/", "%", "^"}
	opc := []int{OP_ADD, OP_SUB, OP_MUL, OP_DIV, OP_MOD, OP_POW}
	k := VChoice(len(ops))
	e := &ast.ArithmeticOpExpr{Operator: ops[k], Lhs: &constLValueExpr{Value: LNumber(a)}, Rhs: &constLValueExpr{Value: LNumber(b)}}
	r := constFold(e)
	c, ok := r.(*constLValueExpr)
	VAssert(ok, "fold: constant operands fold "+ops[k])
	x := float64(c.Value.(LNumber))
	y := float64(numberArith(nil, opc[k], LNumber(a), LNumber(b)))
	VAssert(VSameF(x, y), "fold: folded value == run-time value "+ops[k])
	VReach("end")
}

// C01.swap — multiple assignment evaluates all right-hand sides before any store.
//
//verif:harness prop=C01 tier=quick bounds="4 templates, 2-3 symbolic float64 inputs (all values)"
func H_C01_massign() {
	L := newL(Options{}, BaseLibName)
	defer L.Close()
	a, b, c := VFloat("a"), VFloat("b"), VFloat("c")
	L.G.Global.RawSetString("x", LNumber(a))
	L.G.Global.RawSetString("y", LNumber(b))
	L.G.Global.RawSetString("z", LNumber(c))
	tmpl := []string{
		"local a, b = x, y; a, b = b, a; return a, b, 0",
		"local a, b, c = x, y, z; a, b, c = c, a, b; return a, b, c",
		"local a, b, c = x, y, z; a, b, c = b, c, a; return a, b, c",
		"local t = {x, y}; local i = 1; i, t[i] = i + 1, z; return t[1], t[2], i",
	}
	k := VChoice(len(tmpl))
	err := loadRun(L, tmpl[k], 3)
	VAssert(err == nil, "massign: runs "+tmpl[k])
	var want [3]LValue
	switch k {
	case 0:
		want = [3]LValue{LNumber(b), LNumber(a), LNumber(0)}
	case 1:
		want = [3]LValue{LNumber(c), LNumber(a), LNumber(b)}
	case 2:
		want = [3]LValue{LNumber(b), LNumber(c), LNumber(a)}
	case 3:
		want = [3]LValue{LNumber(c), LNumber(b), LNumber(2)}
	}
	for i := 0; i < 3; i++ {
		VAssert(sameValue(L.Get(i+1), want[i]), "massign: result of `"+tmpl[k]+"`")
	}
	VReach("end")
}
