//go:build verif

package lua

// C18.sort — table.sort with the default comparator gives an ordered permutation.
//
//verif:harness prop=C18 tier=quick qparams=n:3 tparams=n:4 bounds="n<=3 (quick) / 4 (thorough) symbolic float64 elements, NaN excluded; optionally with a cleared slot after the last element"
func H_C18_sort() {
	L := newL(Options{}, TabLibName)
	n := VChoice(VParam("n", 3) + 1)
	tb := L.NewTable()
	in := make([]float64, n)
	for i := 0; i < n; i++ {
		in[i] = VFloat("e")
		VAssume(in[i] == in[i])
		tb.RawSetInt(i+1, LNumber(in[i]))
	}
	// optionally the list was one longer and its last element has been cleared again (t[n+1] = x; t[n+1] = nil):
	// the array part keeps the slot, the list does not include it
	if VChoice(2) == 1 {
		tb.RawSetInt(n+1, LNumber(5))
		tb.RawSetInt(n+1, LNil)
	}
	L.Push(L.GetField(L.GetGlobal("table"), "sort"))
	L.Push(tb)
	err := L.PCall(1, 0, nil)
	VAssert(err == nil, "sort: no error")
	out := make([]float64, n)
	for i := 0; i < n; i++ {
		v, ok := tb.RawGetInt(i + 1).(LNumber)
		VAssert(ok, "sort: elements stay numbers")
		out[i] = float64(v)
	}
	for i := 0; i+1 < n; i++ {
		VAssert(out[i] <= out[i+1], "sort: ordered")
	}
	for i := 0; i < n; i++ {
		ci, co := 0, 0
		for j := 0; j < n; j++ {
			ci = VIteI(in[j] == in[i], ci+1, ci)
			co = VIteI(out[j] == in[i], co+1, co)
		}
		VAssert(ci == co, "sort: multiset preserved")
	}
	VAssert(tb.Len() == n, "sort: length unchanged")
	VReach("end")
}

// listModel operations of the Lua 5.1 manual on a Go slice of numbers
func c18Check(L *LState, tb *LTable, model []float64, label string) {
	VAssert(tb.Len() == len(model), label+": length")
	VAssert(L.ObjLen(tb) == len(model), label+": # operator")
	for i, v := range model {
		VAssert(sameValue(tb.RawGetInt(i+1), LNumber(v)), label+": element")
	}
	VAssert(tb.RawGetInt(len(model)+1) == LNil, label+": nothing after the last element")
}

// C18.listops — insert/remove/concat/maxn/getn/unpack on a list, with symbolic positions.
//
//verif:harness prop=C18 tier=quick qparams=steps:3 tparams=steps:4 bounds="list of n<=3 symbolic numbers; histories of steps (3 quick / 4 thorough) operations from {insert(t,v), insert(t,pos,v) with 1<=pos<=n+1, remove(t), remove(t,pos) with 1<=pos<=n, t[n+1]=v, t[n]=nil, and as a last step insert(t,pos,nil) with 1<=pos<=n}; pos symbolic; then concat/maxn/getn/unpack checked"
func H_C18_listops() {
	L := newL(Options{}, BaseLibName, TabLibName)
	tabmod := L.GetGlobal("table")
	n := VChoice(4)
	tb := L.NewTable()
	var model []float64
	for i := 0; i < n; i++ {
		v := float64(VI32("e"))
		model = append(model, v)
		tb.RawSetInt(i+1, LNumber(v))
	}
	call := func(fn string, nret int, args ...LValue) []LValue {
		base := L.GetTop()
		L.Push(L.GetField(tabmod, fn))
		for _, a := range args {
			L.Push(a)
		}
		err := L.PCall(len(args), nret, nil)
		VAssert(err == nil, "listops: table."+fn+" succeeds for arguments in the documented range")
		var out []LValue
		for i := base + 1; i <= L.GetTop(); i++ {
			out = append(out, L.Get(i))
		}
		L.SetTop(base)
		return out
	}
	steps := VParam("steps", 2)
	for s := 0; s < steps; s++ {
		ln := len(model)
		switch VChoice(7) {
		case 6: // insert(t, pos, nil) with 1 <= pos <= n: the tail still moves up and t[pos] becomes nil (last step: the list has a hole afterwards)
			if ln == 0 {
				continue
			}
			pos := int(VI32("pos"))
			VAssume(VAnd(pos >= 1, pos <= ln))
			call("insert", 0, tb, LNumber(pos), LNil)
			pos = VConc(pos)
			for i := 1; i <= ln+1; i++ {
				got := tb.RawGetInt(i)
				switch {
				case i < pos:
					VAssert(sameValue(got, LNumber(model[i-1])), "insert(t, pos, nil): elements below pos stay")
				case i == pos:
					VAssert(got == LNil, "insert(t, pos, nil): t[pos] is nil")
				default:
					VAssert(sameValue(got, LNumber(model[i-2])), "insert(t, pos, nil): elements from pos on move up by one")
				}
			}
			VReach("end")
			return
		case 0: // append
			v := float64(VI32("v"))
			call("insert", 0, tb, LNumber(v))
			model = append(model, v)
			c18Check(L, tb, model, "insert(t, v)")
		case 1: // insert at pos
			v := float64(VI32("v"))
			pos := int(VI32("pos"))
			VAssume(VAnd(pos >= 1, pos <= ln+1))
			call("insert", 0, tb, LNumber(pos), LNumber(v))
			pos = VConc(pos)
			model = append(model, 0)
			copy(model[pos:], model[pos-1:])
			model[pos-1] = v
			c18Check(L, tb, model, "insert(t, pos, v)")
		case 2: // remove last
			r := call("remove", 1, tb)
			if ln == 0 {
				VAssert(r[0] == LNil, "remove(t) on an empty list returns nil")
			} else {
				VAssert(sameValue(r[0], LNumber(model[ln-1])), "remove(t) returns the last element")
				model = model[:ln-1]
			}
			c18Check(L, tb, model, "remove(t)")
		case 3: // remove at pos
			if ln == 0 {
				continue
			}
			pos := int(VI32("pos"))
			VAssume(VAnd(pos >= 1, pos <= ln))
			r := call("remove", 1, tb, LNumber(pos))
			pos = VConc(pos)
			VAssert(sameValue(r[0], LNumber(model[pos-1])), "remove(t, pos) returns the removed element")
			model = append(model[:pos-1:pos-1], model[pos:]...)
			c18Check(L, tb, model, "remove(t, pos)")
		case 4: // direct assignment extending the list
			v := float64(VI32("v"))
			L.SetTable(tb, LNumber(ln+1), LNumber(v))
			model = append(model, v)
			c18Check(L, tb, model, "t[n+1] = v")
		case 5: // direct assignment shrinking the list
			if ln == 0 {
				continue
			}
			L.SetTable(tb, LNumber(ln), LNil)
			model = model[:ln-1]
			c18Check(L, tb, model, "t[n] = nil")
		}
	}
	ln := len(model)
	VAssert(call("getn", 1, tb)[0] == LNumber(ln), "getn is the list length")
	VAssert(call("maxn", 1, tb)[0] == LNumber(ln), "maxn of a list is its length")
	// unpack(t, i, j)
	L.Push(L.GetGlobal("unpack"))
	L.Push(tb)
	base := L.GetTop() - 2
	VAssert(L.PCall(1, MultRet, nil) == nil, "unpack(t) succeeds")
	VAssert(L.GetTop()-base == ln, "unpack(t) returns every element")
	for i := 0; i < ln && i < L.GetTop()-base; i++ {
		VAssert(sameValue(L.Get(base+1+i), LNumber(model[i])), "unpack(t) returns the elements in order")
	}
	L.SetTop(base)
	// unpack(t, 1, j) with j beyond the border returns exactly j values, nil padded
	L.Push(L.GetGlobal("unpack"))
	L.Push(tb)
	L.Push(LNumber(1))
	L.Push(LNumber(ln + 2))
	base = L.GetTop() - 4
	VAssert(L.PCall(3, MultRet, nil) == nil, "unpack(t, 1, n+2) succeeds")
	VAssert(L.GetTop()-base == ln+2, "unpack(t, i, j) returns exactly j-i+1 values")
	VAssert(L.Get(base+ln+1) == LNil && L.Get(base+ln+2) == LNil, "unpack pads with nil beyond the border")
	L.SetTop(base)
	VReach("end")
}

// C18.concat — table.concat(t, sep, i, j) on a list of strings.
//
//verif:harness prop=C18 tier=quick bounds="list of n<=3 one-byte symbolic strings, 1-byte symbolic separator, i and j symbolic in [1, n] (and defaults)"
func H_C18_concat() {
	L := newL(Options{}, BaseLibName, TabLibName)
	n := VChoice(4)
	tb := L.NewTable()
	var model []string
	numbers := VChoice(2) == 1 // the elements are numbers (their decimal spelling is concatenated)
	for i := 0; i < n; i++ {
		if numbers {
			d := VByte("d")
			VAssume(d <= 2)
			model = append(model, string([]byte{'0' + d}))
			tb.RawSetInt(i+1, LNumber(int(VConc(int(d)))))
			continue
		}
		s := VStr("e", 1)
		model = append(model, s)
		tb.RawSetInt(i+1, LString(s))
	}
	sep := VStr("sep", 1)
	mode := VChoice(3)
	i, j := 1, n
	args := []LValue{tb, LString(sep)}
	if mode >= 1 {
		i = int(VI32("i"))
		VAssume(VAnd(i >= -1, i <= n+2))
		args = append(args, LNumber(i))
		i = VConc(i)
	}
	if mode == 2 {
		j = int(VI32("j"))
		VAssume(VAnd(j >= -1, j <= n+2))
		args = append(args, LNumber(j))
		j = VConc(j)
	}
	L.Push(L.GetField(L.GetGlobal("table"), "concat"))
	for _, a := range args {
		L.Push(a)
	}
	err := L.PCall(len(args), 1, nil)
	if i <= j && (i < 1 || j > n) {
		// a non-empty range that leaves the list reads nil: ltablib.c raises "invalid value (nil) at index ..."
		VAssert(err != nil, "concat: a range that reaches outside the list is an error")
		VReach("end")
		return
	}
	VAssert(err == nil, "concat: succeeds for positions inside the list")
	want := ""
	for k := i; k <= j; k++ {
		want += model[k-1]
		if k != j {
			want += sep
		}
	}
	got, ok := L.Get(-1).(LString)
	VAssert(ok, "concat: the result is a string (also for a single number element)")
	VAssert(ok && string(got) == want, "concat: t[i]..sep..t[i+1] ... sep..t[j]")
	VReach("end")
}

// C18.sortcmp — table.sort with comparators: truthy non-boolean results, descending order,
// inconsistent answers, failing comparator.
//
//verif:harness prop=C18 tier=quick qparams=n:3 tparams=n:4 bounds="n<=3 (quick) / 4 (thorough) symbolic 32-bit integer elements; comparator kinds: a<b and 0 (truthy non-boolean), a>b, Go comparator answering fresh symbolic booleans (arbitrary relation), comparator failing on its k-th call (k symbolic)"
func H_C18_sortcmp() {
	L := newL(Options{}, BaseLibName, TabLibName)
	n := VChoice(VParam("n", 3) + 1)
	tb := L.NewTable()
	in := make([]float64, n)
	for i := 0; i < n; i++ {
		in[i] = float64(VI32("e"))
		tb.RawSetInt(i+1, LNumber(in[i]))
	}
	kind := VChoice(4)
	calls := 0
	failAt := 0
	var cmp LValue
	switch kind {
	case 0:
		VAssert(L.DoString("cmp = function(a, b) return a < b and 0 end") == nil, "sortcmp: define")
		cmp = L.GetGlobal("cmp")
	case 1:
		VAssert(L.DoString("cmp = function(a, b) return a > b end") == nil, "sortcmp: define")
		cmp = L.GetGlobal("cmp")
	case 2, 3:
		if kind == 3 {
			failAt = 1 + VChoice(3)
		}
		cmp = L.NewFunction(func(L *LState) int {
			calls++
			a, ok1 := L.Get(1).(LNumber)
			b, ok2 := L.Get(2).(LNumber)
			VAssert(ok1 && ok2, "sortcmp: the comparator is called with two elements")
			seenA, seenB := false, false
			for _, v := range in {
				seenA = VOr(seenA, float64(a) == v)
				seenB = VOr(seenB, float64(b) == v)
			}
			VAssert(VAnd(seenA, seenB), "sortcmp: the comparator only ever sees elements of t")
			if kind == 3 && calls == failAt {
				L.RaiseError("comparator failed")
			}
			if VBool("lt") {
				L.Push(LTrue)
			} else {
				L.Push(LFalse)
			}
			return 1
		})
	}
	L.Push(L.GetField(L.GetGlobal("table"), "sort"))
	L.Push(tb)
	L.Push(cmp)
	err := L.PCall(2, 0, nil)
	VAssert(calls <= 40, "sortcmp: the number of comparator calls is bounded")
	if kind == 3 && err != nil {
		VReach("comparator-error")
	} else {
		VAssert(err == nil, "sortcmp: sort with a total comparator does not fail")
	}
	out := make([]float64, n)
	for i := 0; i < n; i++ {
		v, ok := tb.RawGetInt(i + 1).(LNumber)
		VAssert(ok, "sortcmp: elements stay numbers")
		out[i] = float64(v)
	}
	for i := 0; i < n; i++ {
		ci, co := 0, 0
		for j := 0; j < n; j++ {
			ci = VIteI(in[j] == in[i], ci+1, ci)
			co = VIteI(out[j] == in[i], co+1, co)
		}
		VAssert(ci == co, "sortcmp: the result is a permutation of the original elements")
	}
	if err == nil {
		for i := 0; i+1 < n; i++ {
			switch kind {
			case 0:
				VAssert(out[i] <= out[i+1], "sortcmp: ordered by a comparator returning a truthy non-boolean")
			case 1:
				VAssert(out[i] >= out[i+1], "sortcmp: ordered by the descending comparator")
			}
		}
	}
	VReach("end")
}
