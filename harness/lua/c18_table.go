//go:build verif

package lua

// C18.sort — table.sort with the default comparator gives an ordered permutation.
//
//verif:harness prop=C18 tier=quick qparams=n:3 tparams=n:4 bounds="n<=3 (quick) / 4 (thorough) symbolic float64 elements, NaN excluded"
func H_C18_sort() {
	L := newL(Options{}, TabLibName)
	n := VChoice(VParam("n", 3) + 1)
	tb := L.NewTable()
	in := make([]float64, n)
	for i := 0; i < n; i++ {
		in[i] = VFloat("e")
		VAssume(in[i] == in[i])
		tb.RawSetInt(i+1, LNumber(in[i]))
	}
	L.Push(L.GetField(L.GetGlobal("table"), "sort"))
	L.Push(tb)
	err := L.PCall(1, 0, nil)
	VAssert(err == nil, "sort: no error")
	out := make([]float64, n)
	for i := 0; i < n; i++ {
		v, ok := tb.RawGetInt(i + 1).(LNumber)
		VAssert(ok, "sort: elements stay numbers")
		out[i] = float64(v)
	}
	for i := 0; i+1 < n; i++ {
		VAssert(out[i] <= out[i+1], "sort: ordered")
	}
	for i := 0; i < n; i++ {
		ci, co := 0, 0
		for j := 0; j < n; j++ {
			ci = VIteI(in[j] == in[i], ci+1, ci)
			co = VIteI(out[j] == in[i], co+1, co)
		}
		VAssert(ci == co, "sort: multiset preserved")
	}
	VAssert(tb.Len() == n, "sort: length unchanged")
	VReach("end")
}
