//go:build verif

package pm

var c14Patterns = []string{
	"a", "a*", "a+b", "a-b", "a?b", ".", ".-b", "^a", "a$", "^a*$", "^$",
	"%a", "%d+", "%s*", "%w", "%x", "%p", "%l%u", "%A", "%D", "%.", "%%",
	"[ab]", "[^ab]", "[a-c]", "[^a-c]+", "[%d_]", "[a%-c]", "[]]", "[^]]", "[a-]",
	"(a)", "(a*)b", "()a()", "(a)(b)", "((a)b)", "(a)%1", "(a*)%1", "(.)%1", "(a)()",
	"%bab", "%b()", "a.-$", "(a+)(b-)", "[ab]*c", ".?.?", "a*a", "(a?)(a?)", "%b()x",
}

func sameMatch(md *MatchData, m RefMatch) bool {
	if md.Capture(0) != m.Start || md.Capture(1) != m.End {
		return false
	}
	if md.CaptureLength()/2-1 != len(m.Caps) {
		return false
	}
	for i, c := range m.Caps {
		j := 2 + 2*i
		if c.Len == refCapPosition {
			// gopher-lua reports a position capture as its 1-based position
			if !md.IsPosCapture(j) || md.Capture(j) != c.Init+1 {
				return false
			}
		} else {
			if md.IsPosCapture(j) || md.Capture(j) != c.Init || md.Capture(j+1) != c.Init+c.Len {
				return false
			}
		}
	}
	return true
}

// C14.find — leftmost match extent and captures equal the lstrlib matcher.
//
//verif:harness prop=C14 tier=quick qparams=slen:3 tparams=slen:4 bounds="49 concrete patterns x every subject of <= slen symbolic bytes (3 quick / 4 thorough) x every start offset 0..len"
func H_C14_find() {
	k := VChoice(len(c14Patterns))
	pat := c14Patterns[k]
	n := VChoice(VParam("slen", 3) + 1)
	src := make([]byte, n)
	for i := range src {
		src[i] = VByte("s")
	}
	init := VChoice(n + 1)
	mds, err := Find(pat, src, init, 1)
	found, m, bad := RefFind(pat, src, init)
	if bad {
		VAssert(err != nil || len(mds) == 0, "find: pattern rejected by lstrlib is an error or no match: "+pat)
		VReach("end")
		return
	}
	VAssert(err == nil, "find: valid pattern is not an error: "+pat)
	if err == nil {
		VAssert((len(mds) == 1) == found, "find: match found iff lstrlib finds one: "+pat)
		if found && len(mds) == 1 {
			VAssert(sameMatch(mds[0], m), "find: same extent and captures as lstrlib: "+pat)
		}
	}
	VReach("end")
}

// C14.all — the gmatch/gsub iteration yields the same sequence of matches.
//
//verif:harness prop=C14 tier=quick qparams=slen:3 tparams=slen:4 bounds="same patterns, subjects of <= slen symbolic bytes, whole-subject iteration"
func H_C14_all() {
	k := VChoice(len(c14Patterns))
	pat := c14Patterns[k]
	n := VChoice(VParam("slen", 3) + 1)
	src := make([]byte, n)
	for i := range src {
		src[i] = VByte("s")
	}
	mds, err := Find(pat, src, 0, -1)
	ref, bad := RefFindAll(pat, src)
	if bad {
		VAssert(err != nil || len(mds) == 0, "all: pattern rejected by lstrlib is an error or no match: "+pat)
		VReach("end")
		return
	}
	VAssert(err == nil, "all: valid pattern is not an error: "+pat)
	if err == nil {
		VAssert(len(mds) == len(ref), "all: same number of matches as lstrlib: "+pat)
		if len(mds) == len(ref) {
			for i := range ref {
				VAssert(sameMatch(mds[i], ref[i]), "all: same match sequence as lstrlib: "+pat)
			}
		}
	}
	VReach("end")
}

// C14.malformed — arbitrary pattern bytes never crash the matcher.
//
//verif:harness prop=C14 tier=quick qparams=plen:2,slen:1 tparams=plen:3,slen:2 bounds="every pattern of <= plen symbolic non-zero bytes (2 quick / 3 thorough) x subjects of <= slen symbolic bytes"
func H_C14_malformed() {
	pn := VChoice(VParam("plen", 2) + 1)
	pb := make([]byte, pn)
	for i := range pb {
		pb[i] = VByte("p")
		VAssume(pb[i] != 0)
	}
	n := VChoice(VParam("slen", 1) + 1)
	src := make([]byte, n)
	for i := range src {
		src[i] = VByte("s")
	}
	for i := 0; i+1 < pn; i++ {
		// %f (frontier) is not part of the documented 5.1 pattern language: outside the claim
		VAssume(!VAnd(pb[i] == '%', pb[i+1] == 'f'))
	}
	pat := string(pb)
	mds, err := Find(pat, src, 0, 1) // any panic other than *Error escapes Find and is reported as uncaught
	found, m, bad := RefFind(pat, src, 0)
	switch {
	case bad:
		VAssert(err != nil || len(mds) == 0, "malformed: pattern rejected by lstrlib is an error or no match")
	case err != nil:
		// lstrlib detects malformed patterns lazily; an eager error is fine as long as no match is lost
		VAssert(!found, "malformed: an error is raised only where lstrlib finds no match")
	default:
		VAssert((len(mds) == 1) == found, "malformed: match found iff lstrlib finds one")
		if found && len(mds) == 1 {
			VAssert(sameMatch(mds[0], m), "malformed: same extent and captures as lstrlib")
		}
	}
	VReach("end")
}
