//go:build verif

package pm

// R-pm: a line-by-line Go port of the Lua 5.1.4 pattern matcher (lstrlib.c: match, max_expand,
// min_expand, matchbalance, start_capture, end_capture, match_capture, classEnd, singlematch,
// matchbracketclass, match_class). Positions are indices; -1 plays the role of NULL.

const (
	refCapUnfinished = -1
	refCapPosition   = -2
	refMaxCaptures   = 32
	refLEsc          = '%'
)

type refErr struct{ msg string }

type RefCapture struct {
	Init int
	Len  int // refCapPosition for position captures
}

type refState struct {
	src     []byte
	pat     []byte
	level   int
	capture [refMaxCaptures]RefCapture
	depth   int
}

func (ms *refState) p(i int) int { // pattern byte or 0 at the end (C strings are NUL-terminated)
	if i < len(ms.pat) {
		return int(ms.pat[i])
	}
	return 0
}

func refIsAlpha(c int) bool  { return (c >= 'a' && c <= 'z') || (c >= 'A' && c <= 'Z') }
func refIsDigit(c int) bool  { return c >= '0' && c <= '9' }
func refIsLower(c int) bool  { return c >= 'a' && c <= 'z' }
func refIsUpper(c int) bool  { return c >= 'A' && c <= 'Z' }
func refIsCntrl(c int) bool  { return c < 32 || c == 127 }
func refIsSpace(c int) bool  { return (c >= 9 && c <= 13) || c == 32 }
func refIsAlnum(c int) bool  { return refIsAlpha(c) || refIsDigit(c) }
func refIsXDigit(c int) bool { return refIsDigit(c) || (c >= 'a' && c <= 'f') || (c >= 'A' && c <= 'F') }
func refIsPunct(c int) bool {
	return c > 32 && c < 127 && !refIsAlnum(c)
}
func refToLower(c int) int {
	if refIsUpper(c) {
		return c + 32
	}
	return c
}

func refCheckCapture(ms *refState, l int) int {
	l -= '1'
	if l < 0 || l >= ms.level || ms.capture[l].Len == refCapUnfinished {
		panic(refErr{"invalid capture index"})
	}
	return l
}

func refCaptureToClose(ms *refState) int {
	level := ms.level
	for level--; level >= 0; level-- {
		if ms.capture[level].Len == refCapUnfinished {
			return level
		}
	}
	panic(refErr{"invalid pattern capture"})
}

func refClassEnd(ms *refState, p int) int {
	c := ms.p(p)
	p++
	switch c {
	case refLEsc:
		if ms.p(p) == 0 {
			panic(refErr{"malformed pattern (ends with '%')"})
		}
		return p + 1
	case '[':
		if ms.p(p) == '^' {
			p++
		}
		for { // look for a ']'
			if ms.p(p) == 0 {
				panic(refErr{"malformed pattern (missing ']')"})
			}
			cc := ms.p(p)
			p++
			if cc == refLEsc && ms.p(p) != 0 {
				p++ // skip escapes (e.g. '%]')
			}
			if ms.p(p) == ']' {
				break
			}
		}
		return p + 1
	default:
		return p
	}
}

func refMatchClass(c int, cl int) bool {
	var res bool
	switch refToLower(cl) {
	case 'a':
		res = refIsAlpha(c)
	case 'c':
		res = refIsCntrl(c)
	case 'd':
		res = refIsDigit(c)
	case 'l':
		res = refIsLower(c)
	case 'p':
		res = refIsPunct(c)
	case 's':
		res = refIsSpace(c)
	case 'u':
		res = refIsUpper(c)
	case 'w':
		res = refIsAlnum(c)
	case 'x':
		res = refIsXDigit(c)
	case 'z':
		res = c == 0
	default:
		return cl == c
	}
	if refIsLower(cl) {
		return res
	}
	return !res
}

func refMatchBracketClass(ms *refState, c int, p int, ec int) bool {
	sig := true
	if ms.p(p+1) == '^' {
		sig = false
		p++
	}
	for p++; p < ec; p++ {
		if ms.p(p) == refLEsc {
			p++
			if refMatchClass(c, ms.p(p)) {
				return sig
			}
		} else if ms.p(p+1) == '-' && p+2 < ec {
			p += 2
			if ms.p(p-2) <= c && c <= ms.p(p) {
				return sig
			}
		} else if ms.p(p) == c {
			return sig
		}
	}
	return !sig
}

func refSingleMatch(ms *refState, c int, p int, ep int) bool {
	switch ms.p(p) {
	case '.':
		return true
	case refLEsc:
		return refMatchClass(c, ms.p(p+1))
	case '[':
		return refMatchBracketClass(ms, c, p, ep-1)
	default:
		return ms.p(p) == c
	}
}

func refMatchBalance(ms *refState, s int, p int) int {
	if ms.p(p) == 0 || ms.p(p+1) == 0 {
		panic(refErr{"unbalanced pattern"})
	}
	if s >= len(ms.src) || int(ms.src[s]) != ms.p(p) {
		return -1
	}
	b, e := ms.p(p), ms.p(p+1)
	cont := 1
	for s++; s < len(ms.src); s++ {
		if int(ms.src[s]) == e {
			cont--
			if cont == 0 {
				return s + 1
			}
		} else if int(ms.src[s]) == b {
			cont++
		}
	}
	return -1
}

func refMaxExpand(ms *refState, s int, p int, ep int) int {
	i := 0
	for s+i < len(ms.src) && refSingleMatch(ms, int(ms.src[s+i]), p, ep) {
		i++
	}
	for i >= 0 {
		if res := refMatch(ms, s+i, ep+1); res != -1 {
			return res
		}
		i--
	}
	return -1
}

func refMinExpand(ms *refState, s int, p int, ep int) int {
	for {
		if res := refMatch(ms, s, ep+1); res != -1 {
			return res
		} else if s < len(ms.src) && refSingleMatch(ms, int(ms.src[s]), p, ep) {
			s++
		} else {
			return -1
		}
	}
}

func refStartCapture(ms *refState, s int, p int, what int) int {
	level := ms.level
	if level >= refMaxCaptures {
		panic(refErr{"too many captures"})
	}
	ms.capture[level].Init = s
	ms.capture[level].Len = what
	ms.level = level + 1
	res := refMatch(ms, s, p)
	if res == -1 {
		ms.level--
	}
	return res
}

func refEndCapture(ms *refState, s int, p int) int {
	l := refCaptureToClose(ms)
	ms.capture[l].Len = s - ms.capture[l].Init
	res := refMatch(ms, s, p)
	if res == -1 {
		ms.capture[l].Len = refCapUnfinished
	}
	return res
}

func refMatchCapture(ms *refState, s int, l int) int {
	l = refCheckCapture(ms, l)
	ln := ms.capture[l].Len
	if len(ms.src)-s >= ln {
		for i := 0; i < ln; i++ {
			if ms.src[ms.capture[l].Init+i] != ms.src[s+i] {
				return -1
			}
		}
		return s + ln
	}
	return -1
}

func refMatch(ms *refState, s int, p int) int {
	ms.depth++
	if ms.depth > 400 {
		panic(refErr{"reference matcher recursion bound"})
	}
	defer func() { ms.depth-- }()
	for {
		switch ms.p(p) {
		case '(':
			if ms.p(p+1) == ')' {
				return refStartCapture(ms, s, p+2, refCapPosition)
			}
			return refStartCapture(ms, s, p+1, refCapUnfinished)
		case ')':
			return refEndCapture(ms, s, p+1)
		case 0:
			return s
		}
		if ms.p(p) == refLEsc {
			switch nx := ms.p(p + 1); {
			case nx == 'b':
				s = refMatchBalance(ms, s, p+2)
				if s == -1 {
					return -1
				}
				p += 4
				continue
			case nx == 'f':
				p += 2
				if ms.p(p) != '[' {
					panic(refErr{"missing '[' after '%f' in pattern"})
				}
				ep := refClassEnd(ms, p)
				prev := 0
				if s > 0 {
					prev = int(ms.src[s-1])
				}
				cur := 0
				if s < len(ms.src) {
					cur = int(ms.src[s])
				}
				if refMatchBracketClass(ms, prev, p, ep-1) || !refMatchBracketClass(ms, cur, p, ep-1) {
					return -1
				}
				p = ep
				continue
			case refIsDigit(nx):
				s = refMatchCapture(ms, s, nx)
				if s == -1 {
					return -1
				}
				p += 2
				continue
			}
		}
		if ms.p(p) == '$' && ms.p(p+1) == 0 {
			if s == len(ms.src) {
				return s
			}
			return -1
		}
		// default
		ep := refClassEnd(ms, p)
		m := s < len(ms.src) && refSingleMatch(ms, int(ms.src[s]), p, ep)
		switch ms.p(ep) {
		case '?':
			if m {
				if res := refMatch(ms, s+1, ep+1); res != -1 {
					return res
				}
			}
			p = ep + 1
			continue
		case '*':
			return refMaxExpand(ms, s, p, ep)
		case '+':
			if m {
				return refMaxExpand(ms, s+1, p, ep)
			}
			return -1
		case '-':
			return refMinExpand(ms, s, p, ep)
		default:
			if !m {
				return -1
			}
			s++
			p = ep
			continue
		}
	}
}

// RefMatch is one match: extent [Start, End) and the captures of lstrlib's push_captures
// (whole match excluded).
type RefMatch struct {
	Start, End int
	Caps       []RefCapture
}

func refCollect(ms *refState, s, e int) RefMatch {
	m := RefMatch{Start: s, End: e}
	for i := 0; i < ms.level; i++ {
		if ms.capture[i].Len == refCapUnfinished {
			panic(refErr{"unfinished capture"})
		}
		m.Caps = append(m.Caps, ms.capture[i])
	}
	return m
}

// RefFind is str_find_aux for a non-plain search starting at byte offset init (0-based, already
// clamped): the leftmost match or none. bad=true when lstrlib raises an error.
func RefFind(pat string, src []byte, init int) (found bool, m RefMatch, bad bool) {
	defer func() {
		if r := recover(); r != nil {
			if _, ok := r.(refErr); ok {
				found, bad = false, true
				return
			}
			panic(r)
		}
	}()
	ms := &refState{src: src, pat: []byte(pat)}
	p := 0
	anchor := ms.p(0) == '^'
	if anchor {
		p = 1
	}
	s := init
	for {
		ms.level = 0
		if e := refMatch(ms, s, p); e != -1 {
			return true, refCollect(ms, s, e), false
		}
		s++
		if s > len(src) || anchor {
			break
		}
	}
	return false, RefMatch{}, false
}

// RefFindAll is the iteration of gmatch / gsub over the whole subject.
func RefFindAll(pat string, src []byte) (ms2 []RefMatch, bad bool) {
	defer func() {
		if r := recover(); r != nil {
			if _, ok := r.(refErr); ok {
				ms2, bad = nil, true
				return
			}
			panic(r)
		}
	}()
	ms := &refState{src: src, pat: []byte(pat)}
	p := 0
	anchor := ms.p(0) == '^'
	if anchor {
		p = 1
	}
	s := 0
	for {
		ms.level = 0
		e := refMatch(ms, s, p)
		if e != -1 {
			ms2 = append(ms2, refCollect(ms, s, e))
		}
		if e != -1 && e > s {
			s = e
		} else if s < len(src) {
			s++
		} else {
			break
		}
		if anchor {
			break
		}
	}
	return ms2, false
}
