package interp

// Symbolic scalars: Go operators on sym values become SMT terms.

import (
	"fmt"
	"go/token"
	"go/types"
	"math"

	"golang.org/x/tools/go/ssa"
)

var rtErrType types.Type // runtime.errorString

// rtPanic raises the Go run-time panic the real program would raise (recoverable by the target).
func rtPanic(msg string) {
	panic(targetPanic{iface{rtErrType, msg}})
}

func basicOf(t types.Type) *types.Basic {
	b, _ := t.Underlying().(*types.Basic)
	return b
}

// sortOf maps a Go basic type to (sort, signed, ok).
func sortOf(t types.Type) (ssort, bool, bool) {
	b := basicOf(t)
	if b == nil {
		return 0, false, false
	}
	switch b.Kind() {
	case types.Bool, types.UntypedBool:
		return sBool, false, true
	case types.Int, types.Int64, types.UntypedInt:
		return sBV64, true, true
	case types.Uint, types.Uint64, types.Uintptr:
		return sBV64, false, true
	case types.Int32, types.UntypedRune:
		return sBV32, true, true
	case types.Uint32:
		return sBV32, false, true
	case types.Int16:
		return sBV16, true, true
	case types.Uint16:
		return sBV16, false, true
	case types.Int8:
		return sBV8, true, true
	case types.Uint8:
		return sBV8, false, true
	case types.Float64, types.UntypedFloat:
		return sF64, true, true
	}
	return 0, false, false
}

// liftAny lifts a concrete Go scalar to a term of its natural sort.
func liftAny(v value) *term {
	switch x := v.(type) {
	case sym:
		return x.t
	case bool:
		return mkBool(x)
	case float64:
		return mkF64(x)
	case int:
		return tBV(64, uint64(x))
	case int64:
		return tBV(64, uint64(x))
	case uint:
		return tBV(64, uint64(x))
	case uint64:
		return tBV(64, x)
	case uintptr:
		return tBV(64, uint64(x))
	case int32:
		return tBV(32, uint64(x))
	case uint32:
		return tBV(32, uint64(x))
	case int16:
		return tBV(16, uint64(x))
	case uint16:
		return tBV(16, uint64(x))
	case int8:
		return tBV(8, uint64(x))
	case uint8:
		return tBV(8, uint64(x))
	}
	panic(engineAbort{fmt.Sprintf("lift: unsupported %T", v)})
}

// lower turns a constant term into the concrete Go value of type t; non-constants stay symbolic.
func lower(tm *term, t types.Type) value {
	if !tm.isConst() {
		return sym{tm}
	}
	b := basicOf(t)
	if b == nil {
		return sym{tm}
	}
	u := tm.bits
	switch b.Kind() {
	case types.Bool, types.UntypedBool:
		return u == 1
	case types.Int, types.UntypedInt:
		return int(u)
	case types.Int64:
		return int64(u)
	case types.Uint:
		return uint(u)
	case types.Uint64:
		return u
	case types.Uintptr:
		return uintptr(u)
	case types.Int32, types.UntypedRune:
		return int32(u)
	case types.Uint32:
		return uint32(u)
	case types.Int16:
		return int16(u)
	case types.Uint16:
		return uint16(u)
	case types.Int8:
		return int8(u)
	case types.Uint8:
		return uint8(u)
	case types.Float64, types.UntypedFloat:
		return math.Float64frombits(u)
	}
	return sym{tm}
}

func lowerBool(tm *term) value {
	if tm.isConst() {
		return tm.bits == 1
	}
	return sym{tm}
}

func containsSym(v value) bool {
	switch x := v.(type) {
	case sym, symstr:
		return true
	case iface:
		return containsSym(x.v)
	case structure:
		for _, e := range x {
			if containsSym(e) {
				return true
			}
		}
	case array:
		for _, e := range x {
			if containsSym(e) {
				return true
			}
		}
	}
	return false
}

// eqTerm builds the Go equality x == y as a term (values of the same static type).
func eqTerm(x, y value) *term {
	switch a := x.(type) {
	case symstr:
		return symstrEq(a, toSymstr(y))
	case string:
		if b, ok := y.(symstr); ok {
			return symstrEq(toSymstr(a), b)
		}
		return mkBool(a == y.(string))
	case iface:
		b := y.(iface)
		if a.t == nil || b.t == nil {
			return mkBool(a.t == nil && b.t == nil)
		}
		if !types.Identical(a.t, b.t) {
			return mkBool(false)
		}
		return eqTerm(a.v, b.v)
	case structure:
		b := y.(structure)
		parts := []*term{}
		for i := range a {
			parts = append(parts, eqTerm(a[i], b[i]))
		}
		return tAnd(parts...)
	case array:
		b := y.(array)
		parts := []*term{}
		for i := range a {
			parts = append(parts, eqTerm(a[i], b[i]))
		}
		return tAnd(parts...)
	case sym:
		return scalarEq(a.t, liftAny(y))
	}
	if b, ok := y.(sym); ok {
		return scalarEq(liftAny(x), b.t)
	}
	switch x.(type) {
	case *value, chan value, bool, int, int8, int16, int32, int64, uint, uint8, uint16, uint32, uint64, uintptr, float32, float64, complex64, complex128:
		return mkBool(x == y)
	case *omap, *closure, *ssa.Function, *ssa.Builtin, []value:
		rtPanic("runtime error: comparing uncomparable type")
	}
	panic(engineAbort{fmt.Sprintf("eqTerm: unsupported %T", x)})
}

func scalarEq(a, b *term) *term {
	if a.sort == sF64 {
		return mk(oFEq, sBool, a, b)
	}
	return tEq(a, b)
}

func binop(op token.Token, t types.Type, x, y value) value {
	if isOpaque(x) || isOpaque(y) {
		if op == token.ADD {
			return opaqueStr{"concat"}
		}
		panic(engineAbort{"inspection of an opaque (formatted-from-symbolic) string: " + op.String()})
	}
	_, xs := x.(symstr)
	_, ys := y.(symstr)
	if xs || ys {
		return symstrBinop(op, x, y)
	}
	if !isSym(x) && !isSym(y) {
		if (op == token.EQL || op == token.NEQ) && (containsSym(x) || containsSym(y)) {
			r := eqTerm(x, y)
			if op == token.NEQ {
				r = tNot(r)
			}
			return lowerBool(r)
		}
		return binopC(op, t, x, y)
	}
	so, signed, ok := sortOf(t)
	if !ok {
		panic(engineAbort{fmt.Sprintf("sym binop %s on type %s", op, t)})
	}
	a := liftAny(x)
	var b *term
	if op == token.SHL || op == token.SHR {
		// Go: shift count may have any integer type; count >= width gives 0 / sign fill.
		b = liftAny(y)
		ysigned := false
		switch y.(type) {
		case int, int8, int16, int32, int64:
			ysigned = true
		case sym:
			ysigned = false // negative counts of signed symbolic type are treated by the caller's type below
		}
		if ysigned {
			if signExt(b.sort.width(), b.bits) < 0 {
				rtPanic("runtime error: negative shift amount")
			}
		}
		w, yw := so.width(), b.sort.width()
		if yw < w {
			b = tZExt(b, w)
		} else if yw > w {
			big := mk(oULe, sBool, tBV(yw, uint64(w)), b)
			b = tIte(big, tBV(w, uint64(w)), tExtract(b, w-1, 0))
		}
	} else {
		b = liftAny(y)
	}
	if a.sort != so || (b.sort != so && op != token.SHL && op != token.SHR) {
		panic(engineAbort{fmt.Sprintf("sym binop %s: sort mismatch %v %v for %s", op, a.sort, b.sort, t)})
	}
	if so == sF64 {
		switch op {
		case token.ADD:
			return lower(mk(oFAdd, sF64, a, b), t)
		case token.SUB:
			return lower(mk(oFSub, sF64, a, b), t)
		case token.MUL:
			return lower(mk(oFMul, sF64, a, b), t)
		case token.QUO:
			return lower(mk(oFDiv, sF64, a, b), t)
		case token.EQL:
			return lowerBool(mk(oFEq, sBool, a, b))
		case token.NEQ:
			return lowerBool(tNot(mk(oFEq, sBool, a, b)))
		case token.LSS:
			return lowerBool(mk(oFLt, sBool, a, b))
		case token.LEQ:
			return lowerBool(mk(oFLe, sBool, a, b))
		case token.GTR:
			return lowerBool(mk(oFLt, sBool, b, a))
		case token.GEQ:
			return lowerBool(mk(oFLe, sBool, b, a))
		}
		panic(engineAbort{"float op " + op.String()})
	}
	if so == sBool {
		switch op {
		case token.EQL:
			return lowerBool(tEq(a, b))
		case token.NEQ:
			return lowerBool(tNot(tEq(a, b)))
		}
		panic(engineAbort{"bool op " + op.String()})
	}
	sel := func(s, u opcode) opcode {
		if signed {
			return s
		}
		return u
	}
	switch op {
	case token.ADD:
		return lower(mk(oAdd, so, a, b), t)
	case token.SUB:
		return lower(mk(oSub, so, a, b), t)
	case token.MUL:
		return lower(mk(oMul, so, a, b), t)
	case token.AND:
		return lower(mk(oBAnd, so, a, b), t)
	case token.OR:
		return lower(mk(oBOr, so, a, b), t)
	case token.XOR:
		return lower(mk(oBXor, so, a, b), t)
	case token.AND_NOT:
		return lower(mk(oBAnd, so, a, mk(oBNot, so, b)), t)
	case token.SHL:
		return lower(mk(oShl, so, a, b), t)
	case token.SHR:
		return lower(mk(sel(oAShr, oLShr), so, a, b), t)
	case token.QUO, token.REM:
		if explorer.decide(tEq(b, mkConst(so, 0))) {
			rtPanic("runtime error: integer divide by zero")
		}
		if op == token.QUO {
			return lower(mk(sel(oSDiv, oUDiv), so, a, b), t)
		}
		return lower(mk(sel(oSRem, oURem), so, a, b), t)
	case token.EQL:
		return lowerBool(tEq(a, b))
	case token.NEQ:
		return lowerBool(tNot(tEq(a, b)))
	case token.LSS:
		return lowerBool(mk(sel(oSLt, oULt), sBool, a, b))
	case token.LEQ:
		return lowerBool(mk(sel(oSLe, oULe), sBool, a, b))
	case token.GTR:
		return lowerBool(mk(sel(oSLt, oULt), sBool, b, a))
	case token.GEQ:
		return lowerBool(mk(sel(oSLe, oULe), sBool, b, a))
	}
	panic(engineAbort{"int op " + op.String()})
}

func unop(instr *ssa.UnOp, x value) value {
	if sp, ok := x.(*symElemPtr); ok {
		if instr.Op == token.MUL {
			return sp.load()
		}
		panic(engineAbort{"symbolic element pointer used by " + instr.Op.String()})
	}
	sx, ok := x.(sym)
	if !ok {
		return unopC(instr, x)
	}
	t := instr.Type()
	switch instr.Op {
	case token.SUB:
		if sx.t.sort == sF64 {
			return lower(mk(oFNeg, sF64, sx.t), t)
		}
		return lower(mk(oNeg, sx.t.sort, sx.t), t)
	case token.NOT:
		return lowerBool(tNot(sx.t))
	case token.XOR:
		return lower(mk(oBNot, sx.t.sort, sx.t), t)
	}
	panic(engineAbort{"sym unop " + instr.Op.String()})
}

func conv(t_dst, t_src types.Type, x value) value {
	if ss, ok := x.(symstr); ok {
		if _, ok := t_dst.Underlying().(*types.Slice); ok {
			return append([]value{}, ss...)
		}
		return ss
	}
	if xs, ok := x.([]value); ok && hasSymElem(xs) {
		if b, ok := t_dst.Underlying().(*types.Basic); ok && b.Kind() == types.String {
			return append(symstr{}, xs...)
		}
	}
	sx, ok := x.(sym)
	if !ok {
		return convC(t_dst, t_src, x)
	}
	if b, okb := t_dst.Underlying().(*types.Basic); okb && b.Kind() == types.String {
		// string(rune): UTF-8 encode, supported below 0x800 (larger code points fork to abort)
		w := sx.t.sort.width()
		tm := sx.t
		if explorer.decide(mk(oULt, sBool, tm, tBV(w, 0x80))) {
			return symstr{sym{tExtract(tm, 7, 0)}}
		}
		if explorer.decide(mk(oULt, sBool, tm, tBV(w, 0x800))) {
			b0 := mk(oBOr, sBV8, tBV(8, 0xc0), tExtract(mk(oLShr, tm.sort, tm, tBV(w, 6)), 7, 0))
			b1 := mk(oBOr, sBV8, tBV(8, 0x80), mk(oBAnd, sBV8, tBV(8, 0x3f), tExtract(tm, 7, 0)))
			return symstr{lower(b0, types.Typ[types.Uint8]), lower(b1, types.Typ[types.Uint8])}
		}
		panic(engineAbort{"string(rune) for symbolic rune >= 0x800"})
	}
	dso, dsigned, ok := sortOf(t_dst)
	if !ok {
		panic(engineAbort{fmt.Sprintf("sym conv to %s", t_dst)})
	}
	_, ssigned, _ := sortOf(t_src)
	tm := sx.t
	switch {
	case tm.sort == sF64 && dso == sF64:
		return sx
	case tm.sort == sF64 && dso != sBool:
		return lower(float2int(tm, dso, dsigned), t_dst)
	case dso == sF64:
		if tm.sort == sBool {
			panic(engineAbort{"bool->float conv"})
		}
		if ssigned {
			return lower(mk(oSBV2F, sF64, tm), t_dst)
		}
		return lower(mk(oUBV2F, sF64, tm), t_dst)
	default:
		sw, dw := tm.sort.width(), dso.width()
		switch {
		case sw == dw:
			return lower(tm, t_dst)
		case sw > dw:
			return lower(tExtract(tm, dw-1, 0), t_dst)
		default:
			if ssigned {
				return lower(tSExt(tm, dw), t_dst)
			}
			return lower(tZExt(tm, dw), t_dst)
		}
	}
}

// float2int encodes Go's float64 -> integer conversion as compiled for amd64:
// int64/int: CVTTSD2SQ (out of range or NaN -> 0x8000000000000000);
// int32: CVTTSD2SL (-> 0x80000000); narrower signed/unsigned up to 32 bits go through the
// 64-bit (uint32: 64-bit, then truncate) or 32-bit conversion and are truncated.
func float2int(f *term, dso ssort, dsigned bool) *term {
	// int -> float64 -> int round trip of a value that fits 32 bits is exact: skip the FP terms.
	if (f.op == oSBV2F || f.op == oUBV2F) && len(f.args) == 1 {
		a := f.args[0]
		small := a.sort.width() <= 32
		if (a.op == oSExt && f.op == oSBV2F || a.op == oZExt) && a.args[0].sort.width() <= 32 {
			small = true
		}
		if small {
			aw, dw := a.sort.width(), dso.width()
			switch {
			case aw == dw:
				return a
			case aw > dw:
				return tExtract(a, dw-1, 0)
			case f.op == oSBV2F:
				return tSExt(a, dw)
			default:
				return tZExt(a, dw)
			}
		}
	}
	two63 := mkF64(9223372036854775808.0)
	in64 := tAnd(mk(oFLt, sBool, f, two63), mk(oFLe, sBool, mkF64(-9223372036854775808.0), f))
	c64 := tIte(in64, mk(oF2SBV, sBV64, f), tBV(64, 0x8000000000000000))
	switch {
	case dso == sBV64 && dsigned:
		return c64
	case dso == sBV64 && !dsigned:
		// Go amd64: if f < 2^63 use the signed conversion, else convert f-2^63 and flip the top bit.
		small := mk(oFLt, sBool, f, two63)
		hi := mk(oBXor, sBV64, float2int(mk(oFSub, sF64, f, two63), sBV64, true), tBV(64, 0x8000000000000000))
		// NaN: comparison false -> second branch
		return tIte(small, c64, hi)
	case dso == sBV32 && dsigned:
		in32 := tAnd(mk(oFLt, sBool, f, mkF64(2147483648.0)), mk(oFLt, sBool, mkF64(-2147483649.0), f))
		return tIte(in32, tExtract(mk(oF2SBV, sBV64, f), 31, 0), tBV(32, 0x80000000))
	case dso == sBV32 && !dsigned:
		return tExtract(c64, 31, 0)
	default:
		// int8/int16/uint8/uint16: via the 32-bit signed conversion, truncated
		w := dso.width()
		return tExtract(float2int(f, sBV32, true), w-1, 0)
	}
}

// symBool converts an interpreter value of Go type bool to a term.
func boolTerm(v value) *term {
	switch x := v.(type) {
	case bool:
		return mkBool(x)
	case sym:
		return x.t
	}
	panic(engineAbort{fmt.Sprintf("boolTerm %T", v)})
}

func f64Term(v value) *term {
	switch x := v.(type) {
	case float64:
		return mkF64(x)
	case sym:
		if x.t.sort != sF64 {
			panic(engineAbort{"f64Term: not a float"})
		}
		return x.t
	}
	panic(engineAbort{fmt.Sprintf("f64Term %T", v)})
}

// concInt forces an integer value concrete (forking over feasible values).
func concInt(v value) value {
	s, ok := v.(sym)
	if !ok {
		return v
	}
	u := explorer.concretize(s.t)
	switch s.t.sort {
	case sBV64:
		return int(u)
	case sBV32:
		return int(int32(u))
	case sBV16:
		return int(int16(u))
	case sBV8:
		return int(u)
	case sBool:
		return u == 1
	}
	panic(engineAbort{"concInt: bad sort"})
}

func renderBits(so ssort, kind string, b uint64) string {
	switch so {
	case sBool:
		return fmt.Sprint(b == 1)
	case sF64:
		return fmt.Sprintf("%v (0x%016x)", math.Float64frombits(b), b)
	case sBV64:
		return fmt.Sprint(int64(b))
	case sBV32:
		if kind == "u32" {
			return fmt.Sprint(uint32(b))
		}
		return fmt.Sprint(int32(b))
	}
	return fmt.Sprint(b)
}


// symElemPtr is &seq[i] for a symbolic in-range index i over a short sequence of scalars. Loads
// become an ite chain over the elements (no forking); stores concretise the index first.
type symElemPtr struct {
	elems []value
	idx   *term
	str   bool // elements are bytes of a string (read only)
}

const maxSymRead = 256
const maxSymRuns = 20

func trySymElemPtr(x, idx value, it types.Type) *symElemPtr {
	s, ok := idx.(sym)
	if !ok {
		return nil
	}
	var elems []value
	str := false
	switch x := x.(type) {
	case []value:
		elems = x
	case *value:
		a, ok := (*x).(array)
		if !ok {
			return nil
		}
		elems = []value(a)
	case array:
		elems = []value(x)
	case symstr:
		elems = []value(x)
		str = true
	case string:
		if len(x) > maxSymRead {
			return nil
		}
		elems = []value(toSymstr(x))
		str = true
	default:
		return nil
	}
	if len(elems) == 0 || len(elems) > maxSymRead {
		return nil
	}
	// all elements must be scalars of one sort
	var so ssort
	for i, e := range elems {
		var es ssort
		switch v := e.(type) {
		case sym:
			es = v.t.sort
		case bool:
			es = sBool
		case float64:
			es = sF64
		case int, int64, uint, uint64, uintptr:
			es = sBV64
		case int32, uint32:
			es = sBV32
		case int16, uint16:
			es = sBV16
		case int8, uint8:
			es = sBV8
		default:
			return nil
		}
		if i == 0 {
			so = es
		} else if es != so {
			return nil
		}
	}
	// only tables with few runs of equal values are read symbolically (class tables, bit sets);
	// tables with many distinct values (parser tables) are better concretised by forking
	runs := 1
	for i := 1; i < len(elems); i++ {
		if elems[i] != elems[i-1] {
			runs++
			if runs > maxSymRuns {
				return nil
			}
		}
	}
	// range check (forks to the Go run-time panic when out of range is feasible)
	n := len(elems)
	w := s.t.sort.width()
	_, signed, _ := sortOf(it)
	var inr *term
	if w < 64 && uint64(n) >= uint64(1)<<uint(w) {
		if signed {
			inr = mk(oSLe, sBool, tBV(w, 0), s.t)
		} else {
			inr = mkBool(true)
		}
	} else {
		inr = mk(oULt, sBool, s.t, tBV(w, uint64(n)))
	}
	if !explorer.decide(inr) {
		rtPanic(fmt.Sprintf("runtime error: index out of range [symbolic] with length %d", n))
	}
	return &symElemPtr{elems: elems, idx: s.t, str: str}
}

func (sp *symElemPtr) load() value {
	w := sp.idx.sort.width()
	// group equal consecutive results to keep the chain short
	first := sp.elems[len(sp.elems)-1]
	acc := liftAny(first)
	for i := len(sp.elems) - 2; i >= 0; i-- {
		e := liftAny(sp.elems[i])
		if e == acc {
			continue
		}
		// elements i+1.. have been folded into acc; element i differs: idx <= i ? chain(i) : acc
		// build precisely: ite(idx == i, e, acc) would lose grouping; use idx <= i with nested lower part later
		acc = tIte(mk(oULe, sBool, sp.idx, tBV(w, uint64(i))), sp.lowChain(i), acc)
		return lowerToElem(acc, first)
	}
	return lowerToElem(acc, first)
}

// lowChain builds the chain for indices 0..hi (inclusive).
func (sp *symElemPtr) lowChain(hi int) *term {
	w := sp.idx.sort.width()
	acc := liftAny(sp.elems[hi])
	for i := hi - 1; i >= 0; i-- {
		e := liftAny(sp.elems[i])
		if e == acc {
			continue
		}
		return tIte(mk(oULe, sBool, sp.idx, tBV(w, uint64(i))), sp.lowChain(i), acc)
	}
	return acc
}

func lowerToElem(t *term, like value) value {
	if !t.isConst() {
		return sym{t}
	}
	u := t.bits
	switch like.(type) {
	case bool:
		return u == 1
	case float64:
		return math.Float64frombits(u)
	case int:
		return int(u)
	case int64:
		return int64(u)
	case uint:
		return uint(u)
	case uint64:
		return u
	case uintptr:
		return uintptr(u)
	case int32:
		return int32(u)
	case uint32:
		return uint32(u)
	case int16:
		return int16(u)
	case uint16:
		return uint16(u)
	case int8:
		return int8(u)
	case uint8:
		return uint8(u)
	}
	return sym{t}
}

func (sp *symElemPtr) concretize() *value {
	if sp.str {
		panic(engineAbort{"store through a pointer into a string"})
	}
	i := int(explorer.concretize(sp.idx))
	return &sp.elems[i]
}
