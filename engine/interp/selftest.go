package interp

// Self-test of the term layer: (1) the concrete evaluator used for constant folding and for
// evaluating cached models agrees with the solver on random and boundary operands; (2) every
// integer-valued-float rewrite rule is proved equivalent to the un-rewritten floating-point term
// for ALL 32-bit operands by the solver itself.

import (
	"fmt"
	"math"
	"math/rand"
)

var disableIntFloat bool

type stOp struct {
	op    opcode
	res   ssort
	arg   ssort
	arity int
	p0    int
	p1    int
}

func SelfTest(seed int64) (checked int, failures []string) {
	rng := rand.New(rand.NewSource(seed))
	sp := startSolver(PrimarySolver)
	defer sp.close()
	em := &emitter{defined: map[int]bool{}, ufs: map[string]bool{}, out: sp.raw}
	bvEdges := func(w int) []uint64 {
		m := maskW(w, ^uint64(0))
		return []uint64{0, 1, 2, m, m - 1, m >> 1, (m >> 1) + 1, uint64(w), uint64(w - 1), uint64(w + 1)}
	}
	fEdges := []float64{0, math.Copysign(0, -1), 1, -1, 0.5, -1.5, math.Inf(1), math.Inf(-1), math.NaN(), math.MaxFloat64, math.SmallestNonzeroFloat64, 9007199254740992, 9223372036854775808, -9223372036854775808, 4503599627370496.5, 1e300, 3}
	var ops []stOp
	for _, so := range []ssort{sBV8, sBV16, sBV32, sBV64} {
		for _, o := range []opcode{oAdd, oSub, oMul, oUDiv, oSDiv, oURem, oSRem, oBAnd, oBOr, oBXor, oShl, oLShr, oAShr} {
			ops = append(ops, stOp{o, so, so, 2, 0, 0})
		}
		for _, o := range []opcode{oULt, oULe, oSLt, oSLe, oEq} {
			ops = append(ops, stOp{o, sBool, so, 2, 0, 0})
		}
		for _, o := range []opcode{oBNot, oNeg} {
			ops = append(ops, stOp{o, so, so, 1, 0, 0})
		}
	}
	ops = append(ops, stOp{oExtract, sBV8, sBV32, 1, 15, 8}, stOp{oExtract, sBV16, sBV64, 1, 47, 32}, stOp{oZExt, sBV64, sBV8, 1, 56, 0}, stOp{oSExt, sBV64, sBV32, 1, 32, 0}, stOp{oSExt, sBV32, sBV8, 1, 24, 0})
	for _, o := range []opcode{oFAdd, oFSub, oFMul, oFDiv} {
		ops = append(ops, stOp{o, sF64, sF64, 2, 0, 0})
	}
	for _, o := range []opcode{oFEq, oFLt, oFLe, oEq} {
		ops = append(ops, stOp{o, sBool, sF64, 2, 0, 0})
	}
	for _, o := range []opcode{oFNeg, oFAbs, oFSqrt} {
		ops = append(ops, stOp{o, sF64, sF64, 1, 0, 0})
	}
	ops = append(ops, stOp{oFIsNaN, sBool, sF64, 1, 0, 0}, stOp{oFIsInf, sBool, sF64, 1, 0, 0})
	for m := 0; m < 4; m++ {
		ops = append(ops, stOp{oFRound, sF64, sF64, 1, m, 0})
	}
	ops = append(ops, stOp{oSBV2F, sF64, sBV64, 1, 0, 0}, stOp{oUBV2F, sF64, sBV64, 1, 0, 0}, stOp{oSBV2F, sF64, sBV32, 1, 0, 0}, stOp{oF2SBV, sBV64, sF64, 1, 0, 0})

	pick := func(so ssort) uint64 {
		if so == sF64 {
			if rng.Intn(3) == 0 {
				f := fEdges[rng.Intn(len(fEdges))]
				if f != f {
					return 0x7ff8000000000001
				}
				return math.Float64bits(f)
			}
			switch rng.Intn(3) {
			case 0:
				return math.Float64bits(float64(rng.Intn(2000) - 1000))
			case 1:
				return math.Float64bits(rng.NormFloat64() * 1e6)
			}
			b := rng.Uint64()
			if f := math.Float64frombits(b); f != f {
				return 0x7ff8000000000001
			}
			return b
		}
		w := so.width()
		if rng.Intn(3) == 0 {
			e := bvEdges(w)
			return maskW(w, e[rng.Intn(len(e))])
		}
		return maskW(w, rng.Uint64())
	}
	disableIntFloat = true
	for _, o := range ops {
		for k := 0; k < 24; k++ {
			vals := make([]uint64, o.arity)
			args := make([]*term, o.arity)
			for i := range vals {
				vals[i] = pick(o.arg)
				args[i] = mkConst(o.arg, vals[i])
			}
			want, ok := evalOp(o.op, o.res, o.arg, o.p0, o.p1, vals)
			if !ok {
				continue // unspecified in SMT-LIB (guarded by the encoder)
			}
			// build the application over fresh variables bound to the constants, so that neither
			// side is folded by the term constructor
			sp.raw("(push 1)")
			vars := make([]*term, o.arity)
			for i := range vars {
				name := fmt.Sprintf("st_%d", i)
				sp.raw(fmt.Sprintf("(declare-const %s %s)", name, o.arg.smt()))
				vars[i] = mkVar(name, o.arg)
				lit, _ := args[i].leafString()
				sp.raw(fmt.Sprintf("(assert (= %s %s))", name, lit))
			}
			em.defined = map[int]bool{}
			app := tt.intern(&term{op: o.op, sort: o.res, args: vars, p0: o.p0, p1: o.p1})
			wlit, _ := mkConst(o.res, want).leafString()
			sp.raw(fmt.Sprintf("(assert (not (= %s %s)))", em.ref(app), wlit))
			sp.raw("(check-sat)")
			r := sp.line()
			sp.raw("(pop 1)")
			checked++
			if r != "unsat" {
				failures = append(failures, fmt.Sprintf("evaluator/solver disagree (%s): op %d sort %v args %x -> %x", r, o.op, o.arg, vals, want))
			}
		}
	}
	// rewrite rules, universally over 32-bit operands
	type rw struct {
		name string
		mk   func(a, b *term) *term
	}
	i2f := func(a *term) *term { return mk(oSBV2F, sF64, tSExt(a, 64)) }
	u2f := func(a *term) *term { return mk(oSBV2F, sF64, tZExt(a, 64)) }
	c := func(f float64) *term { return mkF64(f) }
	rules := []rw{
		{"add", func(a, b *term) *term { return mk(oFAdd, sF64, i2f(a), i2f(b)) }},
		{"sub", func(a, b *term) *term { return mk(oFSub, sF64, i2f(a), i2f(b)) }},
		{"sub-const", func(a, b *term) *term { return mk(oFSub, sF64, i2f(a), c(1)) }},
		{"add-chain", func(a, b *term) *term { return mk(oFAdd, sF64, mk(oFAdd, sF64, i2f(a), c(7)), i2f(b)) }},
		{"mul-nonneg", func(a, b *term) *term { return mk(oFMul, sF64, u2f(tExtract(a, 15, 0)), u2f(tExtract(b, 15, 0))) }},
		{"lt", func(a, b *term) *term { return tIte(mk(oFLt, sBool, i2f(a), i2f(b)), c(1), c(0)) }},
		{"le", func(a, b *term) *term { return tIte(mk(oFLe, sBool, i2f(a), i2f(b)), c(1), c(0)) }},
		{"eq", func(a, b *term) *term { return tIte(mk(oFEq, sBool, i2f(a), i2f(b)), c(1), c(0)) }},
		{"lt-const-frac", func(a, b *term) *term { return tIte(mk(oFLt, sBool, i2f(a), c(2.5)), c(1), c(0)) }},
		{"const-lt", func(a, b *term) *term { return tIte(mk(oFLt, sBool, c(-3.5), i2f(a)), c(1), c(0)) }},
		{"le-const-big", func(a, b *term) *term { return tIte(mk(oFLe, sBool, i2f(a), c(9223372036854775808.0)), c(1), c(0)) }},
		{"eq-const", func(a, b *term) *term { return tIte(mk(oFEq, sBool, i2f(a), c(5)), c(1), c(0)) }},
		{"isnan", func(a, b *term) *term { return tIte(mk(oFIsNaN, sBool, i2f(a)), c(1), c(0)) }},
		{"round", func(a, b *term) *term { return mkP(oFRound, sF64, 1, 0, "", i2f(a)) }},
		{"f2sbv", func(a, b *term) *term {
			return mk(oAdd, sBV64, mk(oF2SBV, sBV64, mk(oFAdd, sF64, i2f(a), c(1))), tBV(64, 3))
		}},
		// rules added with the format / time / generated-program harnesses
		{"add-minus-zero", func(a, b *term) *term { return mk(oFAdd, sF64, i2f(a), c(math.Copysign(0, -1))) }},
		{"sub-plus-zero", func(a, b *term) *term { return mk(oFSub, sF64, i2f(a), c(0)) }},
		{"minus-zero-add", func(a, b *term) *term { return mk(oFAdd, sF64, c(math.Copysign(0, -1)), i2f(a)) }},
		{"trunc-int-plus-half", func(a, b *term) *term {
			return mk(oF2SBV, sBV64, mk(oFAdd, sF64, u2f(tExtract(a, 15, 0)), c(0.5)))
		}},
		{"trunc-negint-minus-half", func(a, b *term) *term {
			return mk(oF2SBV, sBV64, mk(oFSub, sF64, mk(oSBV2F, sF64, mk(oNeg, sBV64, tZExt(tExtract(a, 15, 0), 64))), c(0.5)))
		}},
		{"int-plus-half-lt", func(a, b *term) *term {
			return tIte(mk(oFLt, sBool, mk(oFAdd, sF64, u2f(tExtract(a, 7, 0)), c(0.5)), c(300)), c(1), c(0))
		}},
		{"ite-const-branch-lt", func(a, b *term) *term {
			v := tIte(tEq(tExtract(a, 7, 0), tBV(8, 0)), c(math.NaN()), i2f(b))
			return tIte(mk(oFLt, sBool, v, c(3)), c(1), c(0))
		}},
		{"narrow-udiv", func(a, b *term) *term { return mk(oUDiv, sBV64, tZExt(tExtract(a, 15, 0), 64), tBV(64, 10)) }},
		{"narrow-urem", func(a, b *term) *term { return mk(oURem, sBV64, tZExt(tExtract(a, 15, 0), 64), tBV(64, 7)) }},
		{"narrow-mul", func(a, b *term) *term {
			return mk(oMul, sBV64, tZExt(tExtract(a, 7, 0), 64), tZExt(tExtract(b, 7, 0), 64))
		}},
		{"sdiv-nonneg", func(a, b *term) *term { return mk(oSDiv, sBV64, tZExt(tExtract(a, 15, 0), 64), tBV(64, 60)) }},
		{"srem-nonneg", func(a, b *term) *term { return mk(oSRem, sBV64, tZExt(tExtract(a, 15, 0), 64), tBV(64, 60)) }},
		{"const-offset-div", func(a, b *term) *term {
			x := tZExt(tExtract(a, 15, 0), 64)
			return mk(oUDiv, sBV64, mk(oAdd, sBV64, mk(oAdd, sBV64, tBV(64, 0x38b9ba80), x), tBV(64, 0x7ffffffe1ad9c900)), tBV(64, 86400))
		}},
		{"const-offset-rem", func(a, b *term) *term {
			x := tZExt(tExtract(a, 15, 0), 64)
			return mk(oURem, sBV64, mk(oAdd, sBV64, tBV(64, 0x7ffffffe1ad9c900+86400*3+77), x), tBV(64, 3600))
		}},
		{"const-first-sum", func(a, b *term) *term {
			return mk(oAdd, sBV64, tBV(64, 0x8000000000000123), mk(oAdd, sBV64, tBV(64, 0x7fffffffffffff00), tSExt(a, 64)))
		}},
		{"isinteger-idiom", func(a, b *term) *term {
			v := mk(oFAdd, sF64, i2f(a), mk(oFDiv, sF64, i2f(b), c(4)))
			return tIte(mk(oFEq, sBool, v, mk(oSBV2F, sF64, float2int(v, sBV64, true))), c(1), c(0))
		}},
	}
	for _, r := range rules {
		// (i) random 32-bit operands through the evaluator validated above
		{
			a, b := mkVar("rw_a", sBV32), mkVar("rw_b", sBV32)
			disableIntFloat = true
			plain := r.mk(a, b)
			disableIntFloat = false
			rewritten := r.mk(a, b)
			for k := 0; k < 400; k++ {
				env := assignment{"rw_a": pick(sBV32), "rw_b": pick(sBV32)}
				v1, ok1 := plain.eval(env, map[int]uint64{})
				v2, ok2 := rewritten.eval(env, map[int]uint64{})
				checked++
				if ok1 != ok2 || v1 != v2 {
					failures = append(failures, fmt.Sprintf("rewrite rule %s differs on a=%x b=%x: %x vs %x", r.name, env["rw_a"], env["rw_b"], v1, v2))
					break
				}
			}
		}
	}
	// (ii) universally, by the solver, over all 8-bit operands (sign-extended): full 32-bit width
	// exceeds the solver's reach for floating-point addition (unknown after 120 s)
	for _, r := range rules {
		a, b := tSExt(mkVar("rw_a8", sBV8), 32), tSExt(mkVar("rw_b8", sBV8), 32)
		disableIntFloat = true
		plain := r.mk(a, b)
		disableIntFloat = false
		rewritten := r.mk(a, b)
		checked++
		if plain == rewritten {
			failures = append(failures, "rewrite rule "+r.name+" did not fire (self-test is vacuous for it)")
			continue
		}
		sp.raw("(push 1)")
		sp.raw("(declare-const rw_a8 (_ BitVec 8))")
		sp.raw("(declare-const rw_b8 (_ BitVec 8))")
		em.defined = map[int]bool{}
		sp.raw(fmt.Sprintf("(assert (not (= %s %s)))", em.ref(plain), em.ref(rewritten)))
		sp.raw("(check-sat)")
		res := sp.line()
		sp.raw("(pop 1)")
		if res == "unknown" {
			// floating-point addition/multiplication terms: the solver gives up even at 8 bits;
			// enumerate all 65536 operand pairs through the evaluator instead
			for x := 0; x < 256 && len(failures) < 20; x++ {
				for y := 0; y < 256; y++ {
					env := assignment{"rw_a8": uint64(x), "rw_b8": uint64(y)}
					v1, ok1 := plain.eval(env, map[int]uint64{})
					v2, ok2 := rewritten.eval(env, map[int]uint64{})
					checked++
					if ok1 != ok2 || v1 != v2 {
						failures = append(failures, fmt.Sprintf("rewrite rule %s differs on a=%d b=%d", r.name, x, y))
						break
					}
				}
			}
		} else if res != "unsat" {
			failures = append(failures, fmt.Sprintf("rewrite rule %s is not an equivalence: solver says %s", r.name, res))
		}
	}
	disableIntFloat = false
	return
}
