package interp

import (
	"fmt"
	"time"
	"go/token"
	"go/types"
	"runtime"
	"strings"

	"golang.org/x/tools/go/ssa"
)

// Interp is the handle the driver uses.
type Interp struct {
	i        *interpreter
	snapshot  map[*ssa.Global]value
	pointees  map[*value]value
	pointeeOf map[*value]string
}

var AllowInit func(p *ssa.Package) bool
var InstrCount int64

// StubBindings maps the full name of a function to the harness function replacing it.
var StubBindings = map[string]*ssa.Function{}

// TargetPkgPrefix identifies packages whose functions are reported as "encoded".
var TargetPkgPrefix = "github.com/yuin/gopher-lua"

type fnInfo struct {
	name     string
	ext      externalFn
	concOnly bool
	stub     *ssa.Function
	skip     bool
}

var fnInfos = map[*ssa.Function]*fnInfo{}

// concreteOnly lists externals that are used only when no argument is symbolic; with symbolic
// arguments the function's own SSA body is interpreted instead.
var concreteOnly = map[string]bool{}

func getInfo(fn *ssa.Function) *fnInfo {
	if in, ok := fnInfos[fn]; ok {
		return in
	}
	name := fn.String()
	in := &fnInfo{name: name}
	if fn.Pkg != nil && fn == fn.Pkg.Func("init") && AllowInit != nil && !AllowInit(fn.Pkg) {
		in.skip = true
	}
	if st, ok := StubBindings[name]; ok {
		in.stub = st
	} else if ext := externals[name]; ext != nil {
		in.ext = ext
		in.concOnly = concreteOnly[name]
	} else if fn.Pkg != nil && strings.HasPrefix(fn.Pkg.Pkg.Path(), TargetPkgPrefix) {
		if ext := intrinsics[fn.Name()]; ext != nil && fn.Signature.Recv() == nil {
			in.ext = ext
		}
	}
	fnInfos[fn] = in
	return in
}

func anySym(args []value) bool {
	for _, a := range args {
		switch x := a.(type) {
		case sym, symstr:
			return true
		case []value:
			if len(x) <= 4096 && hasSymElem(x) {
				return true
			}
		case iface:
			if containsSym(x) {
				return true
			}
		}
	}
	return false
}

func New(prog *ssa.Program, sizes types.Sizes) *Interp {
	i := &interpreter{prog: prog, globals: make(map[*ssa.Global]*value), sizes: sizes, goroutines: 1}
	runtimePkg := i.prog.ImportedPackage("runtime")
	i.runtimeErrorString = runtimePkg.Type("errorString").Object().Type()
	rtErrType = i.runtimeErrorString
	theInterp = i
	for _, pkg := range i.prog.AllPackages() {
		for _, m := range pkg.Members {
			if v, ok := m.(*ssa.Global); ok {
				cell := zero(mustDeref(v.Type()))
				i.globals[v] = &cell
			}
		}
	}
	return &Interp{i: i}
}

// Call runs fn concretely (used for package initialisation).
func (I *Interp) Call(fn *ssa.Function, args ...interface{}) (res interface{}, pan interface{}) {
	defer func() {
		if r := recover(); r != nil {
			pan = r
		}
	}()
	var vs []value
	for _, a := range args {
		vs = append(vs, a)
	}
	res = call(I.i, nil, token.NoPos, fn, vs)
	return
}

func ToString(v interface{}) string { return toString(v) }

// SnapshotGlobals records the value of every package-level variable of the target packages so
// that each path starts from the post-init state.
func (I *Interp) SnapshotGlobals() {
	I.snapshot = map[*ssa.Global]value{}
	I.pointees = map[*value]value{}
	I.pointeeOf = map[*value]string{}
	for g, cell := range I.i.globals {
		if g.Pkg == nil || !strings.HasPrefix(g.Pkg.Pkg.Path(), TargetPkgPrefix) {
			continue
		}
		I.snapshot[g] = copyVal(*cell)
		// a package variable that points to a struct or array (a cached scratch object, say): the object it
		// points to is part of the package-level state too
		if p, ok := (*cell).(*value); ok && p != nil {
			switch (*p).(type) {
			case structure, array:
				I.pointees[p] = copyVal(*p)
				I.pointeeOf[p] = g.String()
			}
		}
	}
}

func (I *Interp) restoreGlobals() {
	for g, v := range I.snapshot {
		*I.i.globals[g] = copyVal(v)
	}
	for p, v := range I.pointees {
		*p = copyVal(v)
	}
}

// GlobalsDiff lists target package variables whose top-level value differs from the snapshot
// (used by the C13 footprint check).
func (I *Interp) GlobalsDiff() []string {
	var out []string
	for g, v := range I.snapshot {
		if !shallowSame(*I.i.globals[g], v) {
			out = append(out, g.String())
		}
	}
	for p, v := range I.pointees {
		if !shallowSame(*p, v) {
			out = append(out, "*"+I.pointeeOf[p])
		}
	}
	return out
}

func shallowSame(a, b value) (same bool) {
	defer func() {
		if recover() != nil {
			same = false
		}
	}()
	switch x := a.(type) {
	case structure:
		y, ok := b.(structure)
		if !ok || len(x) != len(y) {
			return false
		}
		for i := range x {
			if !shallowSame(x[i], y[i]) {
				return false
			}
		}
		return true
	case array:
		y, ok := b.(array)
		if !ok || len(x) != len(y) {
			return false
		}
		for i := range x {
			if !shallowSame(x[i], y[i]) {
				return false
			}
		}
		return true
	case iface:
		y, ok := b.(iface)
		if !ok {
			return false
		}
		if x.t == nil || y.t == nil {
			return x.t == nil && y.t == nil
		}
		return types.Identical(x.t, y.t) && shallowSame(x.v, y.v)
	case []value:
		y, ok := b.([]value)
		if !ok || len(x) != len(y) {
			return false
		}
		return len(x) == 0 || &x[0] == &y[0]
	case *omap:
		y, ok := b.(*omap)
		return ok && x == y
	case *closure:
		y, ok := b.(*closure)
		return ok && x == y
	case sym:
		y, ok := b.(sym)
		return ok && x.t == y.t
	case symstr:
		return false
	}
	return a == b
}

// classifyPanic separates panics the target program may recover (its own panics and the Go
// run-time errors the real program would raise) from engine-side events, which are re-raised and
// can never be swallowed by a target recover().
func classifyPanic(p interface{}) interface{} {
	switch x := p.(type) {
	case nil:
		return nil
	case engineAbort, pathEnd:
		panic(p)
	case targetPanic:
		return p
	case runtime.Error:
		msg := x.Error()
		if strings.Contains(msg, "interp.") || strings.Contains(msg, "ssa.") || strings.Contains(msg, "types.") {
			panic(engineAbort{"interpreter: " + msg + " trail: " + trail()})
		}
		return p
	}
	panic(engineAbort{trunc(fmt.Sprint("interpreter panic: ", p, " trail: ", trail()), 800)})
}

var curFr *frame
var theInterp *interpreter

func trail() string {
	if curFr != nil {
		var parts []string
		for f := curFr; f != nil && len(parts) < 14; f = f.caller {
			parts = append(parts, f.fn.String())
		}
		return "stack: " + strings.Join(parts, " < ")
	}
	return trailLog()
}

func trailLog() string {
	n := len(CallTrail)
	if n > 8 {
		return strings.Join(CallTrail[n-8:], " > ")
	}
	return strings.Join(CallTrail, " > ")
}

// PathWallLimit bounds the wall-clock time of one path (seconds); 0 = none.
var PathWallLimit = 0.0
var pathStart time.Time

func checkBudget() {
	if PathWallLimit > 0 && time.Since(pathStart).Seconds() > PathWallLimit {
		panic(engineAbort{fmt.Sprintf("BOUND-EXCEEDED: path ran longer than %.0fs", PathWallLimit)})
	}
	if explorer != nil && explorer.MaxInstrs > 0 && InstrCount-explorer.startInstrs > explorer.MaxInstrs {
		panic(engineAbort{fmt.Sprintf("BOUND-EXCEEDED: more than %d SSA instructions on one path", explorer.MaxInstrs)})
	}
}

func binopT(instr *ssa.BinOp, x, y value) value {
	if instr.Op == token.SHL || instr.Op == token.SHR {
		if ys, ok := y.(sym); ok {
			if _, signed, _ := sortOf(instr.Y.Type()); signed {
				if explorer.decide(mk(oSLt, sBool, ys.t, mkConst(ys.t.sort, 0))) {
					rtPanic("runtime error: negative shift amount")
				}
			}
		}
	}
	return binop(instr.Op, instr.X.Type(), x, y)
}

func seqLen(x value) int64 {
	switch x := x.(type) {
	case []value:
		return int64(len(x))
	case array:
		return int64(len(x))
	case string:
		return int64(len(x))
	case symstr:
		return int64(len(x))
	case *value:
		return int64(len((*x).(array)))
	}
	return -1
}

// concIndex: symbolic index -> fork on out-of-range (Go run-time panic), then concretise.
func concIndex(x, idx value, it types.Type) value {
	s, ok := idx.(sym)
	if !ok {
		return idx
	}
	n := seqLen(x)
	w := s.t.sort.width()
	_, signed, _ := sortOf(it)
	// Go index expressions: any integer type; negative or >= len panics.
	var inr *term
	if w < 64 && uint64(n) >= uint64(1)<<uint(w) {
		// every non-negative value of this narrow type is below len
		if signed {
			inr = mk(oSLe, sBool, tBV(w, 0), s.t)
		} else {
			inr = mkBool(true)
		}
	} else if signed {
		// unsigned compare covers negative values too (they are huge when read unsigned)
		inr = mk(oULt, sBool, s.t, tBV(w, uint64(n)))
	} else {
		inr = mk(oULt, sBool, s.t, tBV(w, uint64(n)))
	}
	if !explorer.decide(inr) {
		rtPanic(fmt.Sprintf("runtime error: index out of range [symbolic] with length %d", n))
	}
	return int(explorer.concretize(s.t))
}

func concBound(x, b value) value {
	s, ok := b.(sym)
	if !ok {
		return b
	}
	var n int64
	switch x := x.(type) {
	case []value:
		n = int64(cap(x))
	case *value:
		n = int64(len((*x).(array)))
	default:
		n = seqLen(x)
	}
	w := s.t.sort.width()
	inr := mk(oULe, sBool, s.t, tBV(w, uint64(n)))
	if !explorer.decide(inr) {
		rtPanic(fmt.Sprintf("runtime error: slice bounds out of range [symbolic] with capacity %d", n))
	}
	return int(explorer.concretize(s.t))
}

func init() {
	externals["time.Now"] = func(fr *frame, args []value) value {
		return zero(fr.fn.Signature.Results().At(0).Type())
	}
	// the runtime clock behind package time (linknamed, no Go body): a fixed instant
	externals["time.runtimeNano"] = func(fr *frame, args []value) value { return int64(1) }
	externals["time.now"] = func(fr *frame, args []value) value { return tuple{int64(0), int32(0), int64(1)} }
}

// copyVal copies aggregate values (struct, array) deeply; reference values are shared.
func copyVal(v value) value {
	switch x := v.(type) {
	case structure:
		a := make(structure, len(x))
		for i := range x {
			a[i] = copyVal(x[i])
		}
		return a
	case array:
		a := make(array, len(x))
		for i := range x {
			a[i] = copyVal(x[i])
		}
		return a
	}
	return v
}
