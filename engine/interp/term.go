package interp

// Hash-consed SMT terms with light simplification and a concrete evaluator.
// Sorts: Bool, bit-vectors of width 8/16/32/64, Float64.

import (
	"fmt"
	"math"
	"math/bits"
	"strings"
)

type ssort uint8

const (
	sBool ssort = iota
	sBV8
	sBV16
	sBV32
	sBV64
	sF64
)

func (s ssort) width() int {
	switch s {
	case sBV8:
		return 8
	case sBV16:
		return 16
	case sBV32:
		return 32
	case sBV64:
		return 64
	}
	return 0
}

func bvSort(w int) ssort {
	switch w {
	case 8:
		return sBV8
	case 16:
		return sBV16
	case 32:
		return sBV32
	case 64:
		return sBV64
	}
	panic(engineAbort{fmt.Sprintf("unsupported bit-vector width %d", w)})
}

func (s ssort) smt() string {
	switch s {
	case sBool:
		return "Bool"
	case sF64:
		return "(_ FloatingPoint 11 53)"
	}
	return fmt.Sprintf("(_ BitVec %d)", s.width())
}

type opcode uint8

const (
	oConst opcode = iota
	oVar
	oNot
	oAnd
	oOr
	oEq
	oIte
	oAdd
	oSub
	oMul
	oUDiv
	oSDiv
	oURem
	oSRem
	oBAnd
	oBOr
	oBXor
	oBNot
	oNeg
	oShl
	oLShr
	oAShr
	oULt
	oULe
	oSLt
	oSLe
	oExtract // p0 = hi, p1 = lo
	oZExt    // p0 = extra bits
	oSExt
	oFAdd
	oFSub
	oFMul
	oFDiv
	oFNeg
	oFAbs
	oFSqrt
	oFEq
	oFLt
	oFLe
	oFIsNaN
	oFIsInf
	oFRound // p0 = mode: 0 RTZ, 1 RTN (floor), 2 RTP (ceil), 3 RNE
	oF2SBV  // float -> signed bv64, RTZ (caller guards range)
	oSBV2F
	oUBV2F
	oBits2F
	oF2Bits
	oUF // name
)

var opNames = map[opcode]string{
	oNot: "not", oAnd: "and", oOr: "or", oEq: "=", oIte: "ite",
	oAdd: "bvadd", oSub: "bvsub", oMul: "bvmul", oUDiv: "bvudiv", oSDiv: "bvsdiv", oURem: "bvurem", oSRem: "bvsrem",
	oBAnd: "bvand", oBOr: "bvor", oBXor: "bvxor", oBNot: "bvnot", oNeg: "bvneg", oShl: "bvshl", oLShr: "bvlshr", oAShr: "bvashr",
	oULt: "bvult", oULe: "bvule", oSLt: "bvslt", oSLe: "bvsle",
	oFAdd: "fp.add RNE", oFSub: "fp.sub RNE", oFMul: "fp.mul RNE", oFDiv: "fp.div RNE", oFNeg: "fp.neg", oFAbs: "fp.abs", oFSqrt: "fp.sqrt RNE",
	oFEq: "fp.eq", oFLt: "fp.lt", oFLe: "fp.leq", oFIsNaN: "fp.isNaN", oFIsInf: "fp.isInfinite",
	oF2SBV: "(_ fp.to_sbv 64) RTZ", oSBV2F: "(_ to_fp 11 53) RNE", oUBV2F: "(_ to_fp_unsigned 11 53) RNE", oBits2F: "(_ to_fp 11 53)", oF2Bits: "fp.to_ieee_bv",
}

type term struct {
	id     int
	op     opcode
	sort   ssort
	args   []*term
	bits   uint64 // oConst
	name   string // oVar, oUF
	p0, p1 int
	hasUF  bool
	size   int // number of nodes (tree size, saturating) — used for inlining decisions
	rngSet int8 // 0 unknown yet, 1 known range, 2 no range
	lo, hi int64
}

type termTable struct {
	m    map[string]*term
	next int
}

var tt = &termTable{m: map[string]*term{}}

func resetTerms() { tt = &termTable{m: map[string]*term{}} }

func (tb *termTable) intern(t *term) *term {
	var sb strings.Builder
	fmt.Fprintf(&sb, "%d|%d|%x|%s|%d|%d", t.op, t.sort, t.bits, t.name, t.p0, t.p1)
	for _, a := range t.args {
		fmt.Fprintf(&sb, "|%d", a.id)
	}
	k := sb.String()
	if e, ok := tb.m[k]; ok {
		return e
	}
	tb.next++
	t.id = tb.next
	t.size = 1
	for _, a := range t.args {
		t.size += a.size
		if a.hasUF {
			t.hasUF = true
		}
	}
	if t.size > 1<<20 {
		t.size = 1 << 20
	}
	if t.op == oUF {
		t.hasUF = true
	}
	tb.m[k] = t
	return t
}

func maskW(w int, u uint64) uint64 {
	if w < 64 {
		return u & ((1 << uint(w)) - 1)
	}
	return u
}

func mkConst(s ssort, b uint64) *term {
	if s == sBool {
		b &= 1
	} else if s != sF64 {
		b = maskW(s.width(), b)
	}
	return tt.intern(&term{op: oConst, sort: s, bits: b})
}

var (
	tTrue  *term
	tFalse *term
)

func mkBool(b bool) *term {
	if b {
		return mkConst(sBool, 1)
	}
	return mkConst(sBool, 0)
}
func mkF64(f float64) *term { return mkConst(sF64, math.Float64bits(f)) }
func mkVar(name string, s ssort) *term {
	return tt.intern(&term{op: oVar, sort: s, name: name})
}

func (t *term) isConst() bool { return t.op == oConst }
func (t *term) isTrue() bool  { return t.op == oConst && t.sort == sBool && t.bits == 1 }
func (t *term) isFalse() bool { return t.op == oConst && t.sort == sBool && t.bits == 0 }

func signExt(w int, u uint64) int64 {
	if w < 64 {
		sh := uint(64 - w)
		return int64(u<<sh) >> sh
	}
	return int64(u)
}

// evalOp computes an operator on constant argument bit patterns.
func evalOp(op opcode, s ssort, argSort ssort, p0, p1 int, a []uint64) (uint64, bool) {
	w := argSort.width()
	f := func(i int) float64 { return math.Float64frombits(a[i]) }
	fb := func(x float64) (uint64, bool) {
		if x != x {
			return 0x7ff8000000000001, true // canonical NaN
		}
		return math.Float64bits(x), true
	}
	b2u := func(b bool) (uint64, bool) {
		if b {
			return 1, true
		}
		return 0, true
	}
	switch op {
	case oNot:
		return a[0] ^ 1, true
	case oAnd:
		r := uint64(1)
		for _, x := range a {
			r &= x
		}
		return r, true
	case oOr:
		r := uint64(0)
		for _, x := range a {
			r |= x
		}
		return r, true
	case oEq:
		if argSort == sF64 {
			// SMT = on floats: identical, all NaNs equal
			x, y := f(0), f(1)
			if x != x || y != y {
				return b2u(x != x && y != y)
			}
			return b2u(a[0] == a[1])
		}
		return b2u(a[0] == a[1])
	case oIte:
		if a[0] == 1 {
			return a[1], true
		}
		return a[2], true
	case oAdd:
		return maskW(w, a[0]+a[1]), true
	case oSub:
		return maskW(w, a[0]-a[1]), true
	case oMul:
		return maskW(w, a[0]*a[1]), true
	case oUDiv:
		if a[1] == 0 {
			return maskW(w, ^uint64(0)), true
		}
		return a[0] / a[1], true
	case oURem:
		if a[1] == 0 {
			return a[0], true
		}
		return a[0] % a[1], true
	case oSDiv:
		x, y := signExt(w, a[0]), signExt(w, a[1])
		if y == 0 {
			if x >= 0 {
				return maskW(w, ^uint64(0)), true
			}
			return 1, true
		}
		if y == -1 {
			return maskW(w, uint64(-x)), true
		}
		return maskW(w, uint64(x/y)), true
	case oSRem:
		x, y := signExt(w, a[0]), signExt(w, a[1])
		if y == 0 {
			return a[0], true
		}
		if y == -1 {
			return 0, true
		}
		return maskW(w, uint64(x%y)), true
	case oBAnd:
		return a[0] & a[1], true
	case oBOr:
		return a[0] | a[1], true
	case oBXor:
		return a[0] ^ a[1], true
	case oBNot:
		return maskW(w, ^a[0]), true
	case oNeg:
		return maskW(w, -a[0]), true
	case oShl:
		if a[1] >= uint64(w) {
			return 0, true
		}
		return maskW(w, a[0]<<a[1]), true
	case oLShr:
		if a[1] >= uint64(w) {
			return 0, true
		}
		return a[0] >> a[1], true
	case oAShr:
		x := signExt(w, a[0])
		sh := a[1]
		if sh >= uint64(w) {
			sh = uint64(w - 1)
		}
		return maskW(w, uint64(x>>sh)), true
	case oULt:
		return b2u(a[0] < a[1])
	case oULe:
		return b2u(a[0] <= a[1])
	case oSLt:
		return b2u(signExt(w, a[0]) < signExt(w, a[1]))
	case oSLe:
		return b2u(signExt(w, a[0]) <= signExt(w, a[1]))
	case oExtract:
		return maskW(p0-p1+1, a[0]>>uint(p1)), true
	case oZExt:
		return a[0], true
	case oSExt:
		return maskW(w+p0, uint64(signExt(w, a[0]))), true
	case oFAdd:
		return fb(f(0) + f(1))
	case oFSub:
		return fb(f(0) - f(1))
	case oFMul:
		return fb(f(0) * f(1))
	case oFDiv:
		return fb(f(0) / f(1))
	case oFNeg:
		if f(0) != f(0) {
			return fb(f(0))
		}
		return a[0] ^ (1 << 63), true
	case oFAbs:
		if f(0) != f(0) {
			return fb(f(0))
		}
		return a[0] &^ (1 << 63), true
	case oFSqrt:
		return fb(math.Sqrt(f(0)))
	case oFEq:
		return b2u(f(0) == f(1))
	case oFLt:
		return b2u(f(0) < f(1))
	case oFLe:
		return b2u(f(0) <= f(1))
	case oFIsNaN:
		return b2u(f(0) != f(0))
	case oFIsInf:
		return b2u(math.IsInf(f(0), 0))
	case oFRound:
		switch p0 {
		case 0:
			return fb(math.Trunc(f(0)))
		case 1:
			return fb(math.Floor(f(0)))
		case 2:
			return fb(math.Ceil(f(0)))
		case 3:
			return fb(math.RoundToEven(f(0)))
		}
	case oF2SBV:
		x := f(0)
		if x != x || x >= 9223372036854775808.0 || x < -9223372036854775808.0 {
			return 0, false // unspecified
		}
		return uint64(int64(x)), true
	case oSBV2F:
		return fb(float64(signExt(w, a[0])))
	case oUBV2F:
		return fb(float64(a[0]))
	case oBits2F:
		return fb(math.Float64frombits(a[0]))
	case oF2Bits:
		if f(0) != f(0) {
			return 0, false
		}
		return a[0], true
	}
	return 0, false
}

func mk(op opcode, s ssort, args ...*term) *term { return mkP(op, s, 0, 0, "", args...) }

// splitConstOffset views a 64-bit term as x + C (mod 2^64), collecting the constants of nested additions and
// subtractions; it reports false when no constant is involved.
func splitConstOffset(t *term) (*term, uint64, bool) {
	var c uint64
	found := false
	for depth := 0; depth < 16; depth++ {
		if t.op == oAdd && t.sort == sBV64 {
			if t.args[1].isConst() {
				c += t.args[1].bits
				t, found = t.args[0], true
				continue
			}
			if t.args[0].isConst() {
				c += t.args[0].bits
				t, found = t.args[1], true
				continue
			}
		}
		if t.op == oSub && t.sort == sBV64 && t.args[1].isConst() {
			c -= t.args[1].bits
			t, found = t.args[0], true
			continue
		}
		break
	}
	return t, c, found
}

func iteDepth(t *term) int {
	d := 0
	for t.op == oIte {
		d++
		if t.args[2].op == oIte {
			t = t.args[2]
		} else {
			t = t.args[1]
		}
	}
	return d
}

func mkP(op opcode, s ssort, p0, p1 int, name string, args ...*term) *term {
	// constant folding
	if op != oUF && op != oVar && op != oConst {
		all := true
		for _, a := range args {
			if !a.isConst() {
				all = false
				break
			}
		}
		if all {
			vals := make([]uint64, len(args))
			for i, a := range args {
				vals[i] = a.bits
			}
			as := s
			if len(args) > 0 {
				as = args[0].sort
				if op == oIte {
					as = args[1].sort
				}
			}
			if r, ok := evalOp(op, s, as, p0, p1, vals); ok {
				return mkConst(s, r)
			}
		}
	}
	if !disableIntFloat {
		if r := intFloatSimplify(op, s, p0, args); r != nil {
			return r
		}
		// a float predicate or operation over ite(c, A, B) with a constant branch is distributed into the
		// branches: the constant side folds and the other side may become integer arithmetic
		switch op {
		case oFLt, oFLe, oFEq, oFIsNaN, oFIsInf, oFAdd, oFSub, oFNeg, oEq:
			if len(args) > 0 && args[0].sort == sF64 {
				for i, a := range args {
					if a.op == oIte && a.sort == sF64 && (a.args[1].isConst() || a.args[2].isConst()) && iteDepth(a) <= 3 {
						other := true
						for j, b := range args {
							if j != i && b.op == oIte {
								other = false // one operand at a time: no blow-up
							}
						}
						if !other {
							break
						}
						l := append([]*term{}, args...)
						r := append([]*term{}, args...)
						l[i], r[i] = a.args[1], a.args[2]
						return tIte(a.args[0], mkP(op, s, p0, p1, name, l...), mkP(op, s, p0, p1, name, r...))
					}
				}
			}
		}
	}
	// signed division and remainder of operands that are non-negative by range are the unsigned ones (which the
	// rules below can narrow)
	if !disableIntFloat && (op == oSDiv || op == oSRem) && len(args) == 2 && (s == sBV64 || s == bvSort(32)) {
		al, _, ok1 := args[0].bvRange()
		bl, _, ok2 := args[1].bvRange()
		if ok1 && ok2 && al >= 0 && bl >= 1 {
			if op == oSDiv {
				return mkP(oUDiv, s, p0, p1, name, args...)
			}
			return mkP(oURem, s, p0, p1, name, args...)
		}
	}
	// x / k and x % k with 0 <= x < k by range: 0 and x.  (C + x) / k and (C + x) % k with a large constant C (seconds
	// since an epoch split into a concrete day and a symbolic second, say): C/k + (r + x)/k and (r + x) % k with
	// r = C mod k, valid when C + x cannot wrap; the remaining operands are small and are narrowed below.
	if !disableIntFloat && (op == oUDiv || op == oURem) && s == sBV64 && len(args) == 2 && args[1].isConst() && args[1].bits != 0 && !args[0].isConst() {
		k := args[1].bits
		if lo, hi, okr := args[0].bvRange(); okr && lo >= 0 && uint64(hi) < k {
			if op == oUDiv {
				return tBV(64, 0)
			}
			return args[0]
		}
		if x, c, ok := splitConstOffset(args[0]); ok && c >= k {
			if lo, hi, okr := x.bvRange(); okr && lo >= 0 && c <= ^uint64(0)-uint64(hi) && uint64(hi) < 1<<40 {
				base := x
				if r := c % k; r != 0 {
					base = mk(oAdd, sBV64, x, tBV(64, r))
				}
				if op == oUDiv {
					return mk(oAdd, sBV64, tBV(64, c/k), mkP(oUDiv, sBV64, p0, p1, name, base, args[1]))
				}
				return mkP(oURem, sBV64, p0, p1, name, base, args[1])
			}
		}
	}
	// unsigned division, remainder and multiplication of 64-bit terms whose values provably fit a narrower
	// width are done at that width (the bit-blasted circuit shrinks quadratically)
	if !disableIntFloat && (op == oUDiv || op == oURem || op == oMul) && (s == sBV64 || s == bvSort(32)) && len(args) == 2 && !(args[0].isConst() && args[1].isConst()) {
		al, ah, ok1 := args[0].bvRange()
		bl, bh, ok2 := args[1].bvRange()
		if ok1 && ok2 && al >= 0 && bl >= 0 && (op == oMul || bl >= 1) {
			top := ah
			if bh > top {
				top = bh
			}
			if op == oMul {
				top = ah * bh
				if ah > 1<<31 || bh > 1<<31 {
					top = 1 << 62
				}
			}
			for _, nw := range []int{16, 32} {
				if nw < s.width() && top < int64(1)<<uint(nw-1) {
					return tZExt(mkP(op, bvSort(nw), p0, p1, name, tExtract(args[0], nw-1, 0), tExtract(args[1], nw-1, 0)), s.width())
				}
			}
		}
	}
	// light simplification
	switch op {
	case oNot:
		a := args[0]
		if a.op == oNot {
			return a.args[0]
		}
	case oNeg:
		if args[0].op == oNeg {
			return args[0].args[0]
		}
	case oAnd, oOr:
		unit, zero := mkBool(true), mkBool(false)
		if op == oOr {
			unit, zero = zero, unit
		}
		var out []*term
		seen := map[int]bool{}
		for _, a := range args {
			if a == zero {
				return zero
			}
			if a == unit || seen[a.id] {
				continue
			}
			if a.op == op {
				for _, b := range a.args {
					if !seen[b.id] {
						seen[b.id] = true
						out = append(out, b)
					}
				}
				continue
			}
			seen[a.id] = true
			out = append(out, a)
		}
		for _, a := range out {
			if a.op == oNot && seen[a.args[0].id] {
				return zero
			}
		}
		if len(out) == 0 {
			return unit
		}
		if len(out) == 1 {
			return out[0]
		}
		args = out
	case oEq:
		a, b := args[0], args[1]
		if a == b {
			return mkBool(true)
		}
		if a.sort == sBool {
			if b.isTrue() {
				return a
			}
			if a.isTrue() {
				return b
			}
			if b.isFalse() {
				return mk(oNot, sBool, a)
			}
			if a.isFalse() {
				return mk(oNot, sBool, b)
			}
		}
		if a.isConst() && b.isConst() && a.sort != sF64 {
			return mkBool(a.bits == b.bits)
		}
		// (= (ite c k1 k2) k) with distinct constants
		if b.isConst() && a.op == oIte && a.args[1].isConst() && a.args[2].isConst() && a.sort != sF64 {
			e1, e2 := a.args[1].bits == b.bits, a.args[2].bits == b.bits
			switch {
			case e1 && e2:
				return mkBool(true)
			case e1:
				return a.args[0]
			case e2:
				return mk(oNot, sBool, a.args[0])
			default:
				return mkBool(false)
			}
		}
		if a.id > b.id {
			args = []*term{b, a}
		}
	case oFEq:
		if args[0] == args[1] {
			return mk(oNot, sBool, mk(oFIsNaN, sBool, args[0]))
		}
	case oFLt:
		if args[0] == args[1] {
			return mkBool(false)
		}
	case oIte:
		c, a, b := args[0], args[1], args[2]
		if c.isTrue() {
			return a
		}
		if c.isFalse() {
			return b
		}
		if a == b {
			return a
		}
		if a.sort == sBool {
			if a.isTrue() && b.isFalse() {
				return c
			}
			if a.isFalse() && b.isTrue() {
				return mk(oNot, sBool, c)
			}
		}
	case oAdd, oBOr, oBXor:
		if args[1].isConst() && args[1].bits == 0 {
			return args[0]
		}
		if args[0].isConst() && args[0].bits == 0 {
			return args[1]
		}
		// the constant of a sum goes last, so that nested constants meet and fold below
		if !disableIntFloat && op == oAdd && args[0].isConst() && !args[1].isConst() {
			return mk(oAdd, s, args[1], args[0])
		}
		// (x + c1) + c2 => x + (c1+c2)
		if op == oAdd && args[1].isConst() && args[0].op == oAdd && args[0].args[1].isConst() {
			return mk(oAdd, s, args[0].args[0], mkConst(s, args[0].args[1].bits+args[1].bits))
		}
	case oSub:
		if args[1].isConst() {
			if args[1].bits == 0 {
				return args[0]
			}
			return mk(oAdd, s, args[0], mkConst(s, -args[1].bits))
		}
		if args[0] == args[1] {
			return mkConst(s, 0)
		}
	case oMul:
		for i := 0; i < 2; i++ {
			if args[i].isConst() {
				if args[i].bits == 1 {
					return args[1-i]
				}
				if args[i].bits == 0 {
					return mkConst(s, 0)
				}
			}
		}
	case oBAnd:
		for i := 0; i < 2; i++ {
			if args[i].isConst() {
				if args[i].bits == 0 {
					return mkConst(s, 0)
				}
				if args[i].bits == maskW(s.width(), ^uint64(0)) {
					return args[1-i]
				}
			}
		}
		if args[0] == args[1] {
			return args[0]
		}
	case oShl, oLShr, oAShr:
		if args[1].isConst() && args[1].bits == 0 {
			return args[0]
		}
	case oExtract:
		a := args[0]
		if p1 == 0 && p0 == a.sort.width()-1 {
			return a
		}
		if (a.op == oZExt || a.op == oSExt) && p1 == 0 {
			inner := a.args[0]
			iw := inner.sort.width()
			if p0+1 == iw {
				return inner
			}
			if p0+1 < iw {
				return mkP(oExtract, s, p0, 0, "", inner)
			}
		}
	case oZExt, oSExt:
		if p0 == 0 {
			return args[0]
		}
		if args[0].op == op { // ext(ext(x))
			return mkP(op, s, p0+args[0].p0, 0, "", args[0].args[0])
		}
		if op == oSExt && args[0].op == oZExt && args[0].p0 > 0 {
			return mkP(oZExt, s, p0+args[0].p0, 0, "", args[0].args[0])
		}
	case oULt:
		if args[0] == args[1] {
			return mkBool(false)
		}
		if args[1].isConst() && args[1].bits == 0 {
			return mkBool(false)
		}
	case oSLt:
		if args[0] == args[1] {
			return mkBool(false)
		}
	case oULe, oSLe:
		if args[0] == args[1] {
			return mkBool(true)
		}
	case oSBV2F:
		// to_fp(to_sbv(roundToIntegral x)) patterns are left to the solver
	}
	return tt.intern(&term{op: op, sort: s, args: args, p0: p0, p1: p1, name: name})
}

// convenience constructors
func tNot(a *term) *term         { return mk(oNot, sBool, a) }
func tAnd(a ...*term) *term      { return mk(oAnd, sBool, a...) }
func tOr(a ...*term) *term       { return mk(oOr, sBool, a...) }
func tEq(a, b *term) *term       { return mk(oEq, sBool, a, b) }
func tIte(c, a, b *term) *term   { return mk(oIte, a.sort, c, a, b) }
func tImplies(a, b *term) *term  { return tOr(tNot(a), b) }
func tBV(w int, u uint64) *term  { return mkConst(bvSort(w), u) }
func tExtract(a *term, hi, lo int) *term {
	return mkP(oExtract, bvSort(hi-lo+1), hi, lo, "", a)
}
func tZExt(a *term, to int) *term {
	return mkP(oZExt, bvSort(to), to-a.sort.width(), 0, "", a)
}
func tSExt(a *term, to int) *term {
	return mkP(oSExt, bvSort(to), to-a.sort.width(), 0, "", a)
}

// ---- evaluation under an assignment of variables ----

type assignment map[string]uint64

// eval returns the value of t under env; ok=false if a variable is missing, a UF occurs, or the
// value is unspecified.
func (t *term) eval(env assignment, memo map[int]uint64) (uint64, bool) {
	if t.op == oConst {
		return t.bits, true
	}
	if t.hasUF {
		return 0, false
	}
	if v, ok := memo[t.id]; ok {
		return v, true
	}
	var r uint64
	switch t.op {
	case oVar:
		v, ok := env[t.name]
		if !ok {
			return 0, false
		}
		r = v
	case oIte:
		c, ok := t.args[0].eval(env, memo)
		if !ok {
			return 0, false
		}
		if c == 1 {
			r, ok = t.args[1].eval(env, memo)
		} else {
			r, ok = t.args[2].eval(env, memo)
		}
		if !ok {
			return 0, false
		}
	case oAnd, oOr:
		// short circuit so that unspecified sub-terms guarded by conditions do not poison
		short := uint64(0)
		if t.op == oOr {
			short = 1
		}
		r = 1 - short
		unknown := false
		for _, a := range t.args {
			v, ok := a.eval(env, memo)
			if !ok {
				unknown = true
				continue
			}
			if v == short {
				memo[t.id] = short
				return short, true
			}
		}
		if unknown {
			return 0, false
		}
	default:
		vals := make([]uint64, len(t.args))
		for i, a := range t.args {
			v, ok := a.eval(env, memo)
			if !ok {
				return 0, false
			}
			vals[i] = v
		}
		as := t.sort
		if len(t.args) > 0 {
			as = t.args[0].sort
		}
		v, ok := evalOp(t.op, t.sort, as, t.p0, t.p1, vals)
		if !ok {
			return 0, false
		}
		r = v
	}
	memo[t.id] = r
	return r, true
}

// ---- SMT-LIB rendering ----

func bvlit(w int, u uint64) string {
	u = maskW(w, u)
	return fmt.Sprintf("#x%0*x", w/4, u)
}

func f64lit(b uint64) string {
	f := math.Float64frombits(b)
	if f != f {
		return "(_ NaN 11 53)"
	}
	return fmt.Sprintf("(fp #b%d #b%011b #b%052b)", b>>63, (b>>52)&0x7ff, b&((1<<52)-1))
}

func (t *term) leafString() (string, bool) {
	switch t.op {
	case oConst:
		switch t.sort {
		case sBool:
			if t.bits == 1 {
				return "true", true
			}
			return "false", true
		case sF64:
			return f64lit(t.bits), true
		}
		return bvlit(t.sort.width(), t.bits), true
	case oVar:
		return t.name, true
	}
	return "", false
}

// emitter renders terms for one solver scope, naming every inner node with define-fun so that
// shared sub-terms are sent once.
type emitter struct {
	defined map[int]bool
	ufs     map[string]bool
	out     func(string)
}

func (e *emitter) ref(t *term) string {
	if s, ok := t.leafString(); ok {
		return s
	}
	if !e.defined[t.id] {
		e.define(t)
	}
	return fmt.Sprintf("t%d", t.id)
}

func (e *emitter) define(t *term) {
	// iterative post-order to avoid deep recursion on long chains
	type fr struct {
		t *term
		i int
	}
	st := []fr{{t, 0}}
	for len(st) > 0 {
		top := &st[len(st)-1]
		if top.i < len(top.t.args) {
			a := top.t.args[top.i]
			top.i++
			if _, leaf := a.leafString(); !leaf && !e.defined[a.id] {
				st = append(st, fr{a, 0})
			}
			continue
		}
		n := top.t
		st = st[:len(st)-1]
		if e.defined[n.id] {
			continue
		}
		e.defined[n.id] = true
		e.out(fmt.Sprintf("(define-fun t%d () %s %s)", n.id, n.sort.smt(), e.body(n)))
	}
}

func (e *emitter) body(t *term) string {
	parts := make([]string, len(t.args))
	for i, a := range t.args {
		parts[i] = e.ref(a)
	}
	j := strings.Join(parts, " ")
	switch t.op {
	case oExtract:
		return fmt.Sprintf("((_ extract %d %d) %s)", t.p0, t.p1, j)
	case oZExt:
		return fmt.Sprintf("((_ zero_extend %d) %s)", t.p0, j)
	case oSExt:
		return fmt.Sprintf("((_ sign_extend %d) %s)", t.p0, j)
	case oFRound:
		return fmt.Sprintf("(fp.roundToIntegral %s %s)", [...]string{"RTZ", "RTN", "RTP", "RNE"}[t.p0], j)
	case oF2SBV, oSBV2F, oUBV2F, oBits2F:
		return fmt.Sprintf("(%s %s)", opNames[t.op], j)
	case oUF:
		if !e.ufs[t.name] {
			e.ufs[t.name] = true
			doms := make([]string, len(t.args))
			for i, a := range t.args {
				doms[i] = a.sort.smt()
			}
			e.out(fmt.Sprintf("(declare-fun %s (%s) %s)", t.name, strings.Join(doms, " "), t.sort.smt()))
		}
		return fmt.Sprintf("(%s %s)", t.name, j)
	}
	n, ok := opNames[t.op]
	if !ok {
		panic(fmt.Sprintf("no SMT name for op %d", t.op))
	}
	return fmt.Sprintf("(%s %s)", n, j)
}

// String renders a term as a plain (unshared) s-expression, for diagnostics; bounded size.
func (t *term) String() string {
	var sb strings.Builder
	var rec func(t *term, d int)
	rec = func(t *term, d int) {
		if s, ok := t.leafString(); ok {
			sb.WriteString(s)
			return
		}
		if d > 6 || sb.Len() > 400 {
			fmt.Fprintf(&sb, "t%d", t.id)
			return
		}
		e := emitter{defined: map[int]bool{}, ufs: map[string]bool{}, out: func(string) {}}
		_ = e
		name := opNames[t.op]
		switch t.op {
		case oExtract:
			name = fmt.Sprintf("(_ extract %d %d)", t.p0, t.p1)
		case oZExt:
			name = fmt.Sprintf("(_ zero_extend %d)", t.p0)
		case oSExt:
			name = fmt.Sprintf("(_ sign_extend %d)", t.p0)
		case oFRound:
			name = "fp.round" + [...]string{"RTZ", "RTN", "RTP", "RNE"}[t.p0]
		case oUF:
			name = t.name
		}
		sb.WriteString("(" + name)
		for _, a := range t.args {
			sb.WriteString(" ")
			rec(a, d+1)
		}
		sb.WriteString(")")
	}
	rec(t, 0)
	return sb.String()
}

var _ = bits.Len


// ---- integer-valued floats ----
//
// Lua programs compute loop counters, indices and counts in float64. When both operands of a
// floating-point operation are exact images of small integers (|v| <= 2^53) the operation is
// rewritten to bit-vector arithmetic, which the solver decides quickly. Ranges are tracked by a
// conservative interval analysis of 64-bit terms (signed view).

const intFloatLimit = int64(1) << 53

func (t *term) bvRange() (int64, int64, bool) {
	if t.rngSet == 1 {
		return t.lo, t.hi, true
	}
	if t.rngSet == 2 {
		return 0, 0, false
	}
	lo, hi, ok := t.computeRange()
	if ok {
		t.rngSet, t.lo, t.hi = 1, lo, hi
	} else {
		t.rngSet = 2
	}
	return lo, hi, ok
}

func (t *term) computeRange() (int64, int64, bool) {
	const big = int64(1) << 60
	w := t.sort.width()
	if w == 0 {
		return 0, 0, false
	}
	switch t.op {
	case oConst:
		v := signExt(w, t.bits)
		return v, v, true
	case oZExt:
		iw := t.args[0].sort.width()
		if iw >= 63 {
			return 0, 0, false
		}
		if lo, hi, ok := t.args[0].bvRange(); ok && lo >= 0 {
			return lo, hi, true
		}
		return 0, int64(1)<<uint(iw) - 1, true
	case oSExt:
		iw := t.args[0].sort.width()
		if lo, hi, ok := t.args[0].bvRange(); ok {
			return lo, hi, true
		}
		return -(int64(1) << uint(iw-1)), int64(1)<<uint(iw-1) - 1, true
	case oVar:
		if w <= 32 {
			return -(int64(1) << uint(w-1)), int64(1)<<uint(w-1) - 1, false // unsigned/signed view ambiguous: no range
		}
		return 0, 0, false
	case oAdd, oSub:
		if w != 64 {
			return 0, 0, false
		}
		al, ah, ok1 := t.args[0].bvRange()
		bl, bh, ok2 := t.args[1].bvRange()
		if !ok1 || !ok2 || al < -big || ah > big || bl < -big || bh > big {
			return 0, 0, false
		}
		if t.op == oAdd {
			return al + bl, ah + bh, true
		}
		return al - bh, ah - bl, true
	case oNeg:
		if w != 64 {
			return 0, 0, false
		}
		al, ah, ok := t.args[0].bvRange()
		if !ok || al < -big {
			return 0, 0, false
		}
		return -ah, -al, true
	case oMul:
		if w != 64 {
			return 0, 0, false
		}
		al, ah, ok1 := t.args[0].bvRange()
		bl, bh, ok2 := t.args[1].bvRange()
		lim := int64(1) << 30
		if !ok1 || !ok2 || al < -lim || ah > lim || bl < -lim || bh > lim {
			return 0, 0, false
		}
		c := []int64{al * bl, al * bh, ah * bl, ah * bh}
		lo, hi := c[0], c[0]
		for _, v := range c {
			if v < lo {
				lo = v
			}
			if v > hi {
				hi = v
			}
		}
		return lo, hi, true
	case oUDiv, oURem:
		al, ah, ok1 := t.args[0].bvRange()
		bl, bh, ok2 := t.args[1].bvRange()
		if !ok1 || !ok2 || al < 0 || bl < 1 {
			return 0, 0, false
		}
		if t.op == oUDiv {
			return al / bh, ah / bl, true
		}
		if ah < bh-1 {
			return 0, ah, true
		}
		return 0, bh - 1, true
	case oIte:
		al, ah, ok1 := t.args[1].bvRange()
		bl, bh, ok2 := t.args[2].bvRange()
		if !ok1 || !ok2 {
			return 0, 0, false
		}
		if bl < al {
			al = bl
		}
		if bh > ah {
			ah = bh
		}
		return al, ah, true
	case oBAnd:
		for i := 0; i < 2; i++ {
			if t.args[i].isConst() {
				if v := signExt(w, t.args[i].bits); v >= 0 {
					return 0, v, true
				}
			}
		}
	case oExtract:
		if t.p1 == 0 && w < 63 {
			if lo, hi, ok := t.args[0].bvRange(); ok && lo >= 0 && hi < int64(1)<<uint(w-1) {
				return lo, hi, true
			}
		}
	}
	return 0, 0, false
}

// asIntFloat recognises float terms that are exact images of 64-bit integers within +-2^53.
func asIntFloat(f *term) (*term, bool) {
	if f.sort != sF64 {
		return nil, false
	}
	switch f.op {
	case oConst:
		x := math.Float64frombits(f.bits)
		if x != x || math.IsInf(x, 0) || x != math.Trunc(x) || math.Abs(x) > float64(intFloatLimit) {
			return nil, false
		}
		if x == 0 && math.Signbit(x) {
			return nil, false
		}
		return tBV(64, uint64(int64(x))), true
	case oSBV2F:
		a := f.args[0]
		if a.sort.width() < 64 {
			a = tSExt(a, 64)
		}
		lo, hi, ok := a.bvRange()
		if ok && lo >= -intFloatLimit && hi <= intFloatLimit {
			return a, true
		}
	case oUBV2F:
		a := f.args[0]
		if a.sort.width() < 64 {
			a = tZExt(a, 64)
		}
		lo, hi, ok := a.bvRange()
		if ok && lo >= 0 && hi <= intFloatLimit {
			return a, true
		}
	}
	return nil, false
}

// intPlusFraction recognises FAdd/FSub of an integer-valued float (magnitude below 2^51, so the sum is exact)
// and a constant c with |c| < 1; it returns the integer term and c (negated for FSub).
func intPlusFraction(f *term) (*term, float64, bool) {
	if f.op != oFAdd && f.op != oFSub {
		return nil, 0, false
	}
	for i := 0; i < 2; i++ {
		if f.op == oFSub && i == 1 {
			break // c - x is not of this shape
		}
		it, ok := asIntFloat(f.args[i])
		c := f.args[1-i]
		if !ok || !c.isConst() {
			continue
		}
		cv := math.Float64frombits(c.bits)
		if cv != cv || cv <= -1 || cv >= 1 || cv*4 != math.Trunc(cv*4) {
			continue // only quarters: the sum with an integer below 2^51 is exact
		}
		lo, hi, okr := it.bvRange()
		if !okr || lo < -(1<<51) || hi > 1<<51 {
			continue
		}
		if f.op == oFSub {
			cv = -cv
		}
		return it, cv, true
	}
	return nil, 0, false
}

func intFloatSimplify(op opcode, s ssort, p0 int, args []*term) *term {
	switch op {
	case oFAdd, oFSub, oFMul:
		a, ok1 := asIntFloat(args[0])
		// x + (-0.0), x - (-0.0), x - (+0.0) and (-0.0) + x are x itself for an integer-valued x (which is
		// never -0); -0.0 is not an integer image, so the general rule below does not see these
		if op != oFMul {
			isZero := func(t *term) bool { return t.isConst() && t.bits<<1 == 0 }
			if ok1 && isZero(args[1]) {
				return args[0]
			}
			if _, okb := asIntFloat(args[1]); okb && op == oFAdd && isZero(args[0]) {
				return args[1]
			}
		}
		if !ok1 {
			return nil
		}
		b, ok2 := asIntFloat(args[1])
		if !ok2 {
			return nil
		}
		var r *term
		switch op {
		case oFAdd:
			r = mk(oAdd, sBV64, a, b)
		case oFSub:
			r = mk(oSub, sBV64, a, b)
		default:
			al, _, _ := a.bvRange()
			bl, _, _ := b.bvRange()
			if al < 0 || bl < 0 {
				return nil // (-n) * 0 is -0 in IEEE
			}
			r = mk(oMul, sBV64, a, b)
		}
		lo, hi, ok := r.bvRange()
		if !ok || lo < -intFloatLimit || hi > intFloatLimit {
			return nil
		}
		return mk(oSBV2F, sF64, r)
	case oFLt, oFLe, oFEq:
		a, ok1 := asIntFloat(args[0])
		b, ok2 := asIntFloat(args[1])
		if op != oFEq && (!ok1 || args[0].isConst()) && (!ok2 || args[1].isConst()) {
			// (integer-valued float + fraction) against a constant: decided by range when possible
			for i := 0; i < 2; i++ {
				if it, c, ok := intPlusFraction(args[i]); ok && args[1-i].isConst() {
					cv := math.Float64frombits(args[1-i].bits)
					if cv != cv {
						return mkBool(false)
					}
					lo, hi, _ := it.bvRange()
					flo, fhi := float64(lo)+c, float64(hi)+c
					if i == 0 { // x < cv / x <= cv
						if fhi < cv {
							return mkBool(true)
						}
						if flo > cv {
							return mkBool(false)
						}
					} else { // cv < x / cv <= x
						if cv < flo {
							return mkBool(true)
						}
						if cv > fhi {
							return mkBool(false)
						}
					}
				}
			}
		}
		if ok1 != ok2 {
			// int-valued float against an arbitrary finite constant: decide by range when possible
			var it, c *term
			itLeft := ok1
			if ok1 {
				it, c = a, args[1]
			} else {
				it, c = b, args[0]
			}
			if c.isConst() {
				cv := math.Float64frombits(c.bits)
				if cv != cv {
					return mkBool(false)
				}
				lo, hi, _ := it.bvRange()
				flo, fhi := float64(lo), float64(hi)
				switch {
				case op == oFEq:
					if cv < flo || cv > fhi || cv != math.Trunc(cv) {
						return mkBool(false)
					}
				case itLeft && op == oFLt: // it < c
					if fhi < cv {
						return mkBool(true)
					}
					if flo >= cv {
						return mkBool(false)
					}
				case itLeft && op == oFLe:
					if fhi <= cv {
						return mkBool(true)
					}
					if flo > cv {
						return mkBool(false)
					}
				case !itLeft && op == oFLt: // c < it
					if cv < flo {
						return mkBool(true)
					}
					if cv >= fhi {
						return mkBool(false)
					}
				case !itLeft && op == oFLe:
					if cv <= flo {
						return mkBool(true)
					}
					if cv > fhi {
						return mkBool(false)
					}
				}
				// non-integral constant inside the range: compare against floor/ceil
				if cv == math.Trunc(cv) {
					return nil
				}
				fl := tBV(64, uint64(int64(math.Floor(cv))))
				switch {
				case itLeft: // it < c  <=> it <= floor(c)   (also for <=)
					return mk(oSLe, sBool, it, fl)
				default: // c < it <=> floor(c) < it
					return mk(oSLt, sBool, fl, it)
				}
			}
			return nil
		}
		if !ok1 {
			// isInteger idiom: v == float64(int64(v))  <=>  in-range(v) and v == trunc(v)
			if op == oFEq {
				for i := 0; i < 2; i++ {
					v, w := args[i], args[1-i]
					if w.op == oSBV2F && w.args[0].op == oIte {
						ite := w.args[0]
						if ite.args[1].op == oF2SBV && ite.args[1].args[0] == v && ite.args[2].isConst() && ite.args[2].bits == 0x8000000000000000 {
							return tAnd(ite.args[0], mk(oFEq, sBool, v, mkP(oFRound, sF64, 0, 0, "", v)))
						}
					}
				}
			}
			return nil
		}
		switch op {
		case oFLt:
			return mk(oSLt, sBool, a, b)
		case oFLe:
			return mk(oSLe, sBool, a, b)
		}
		return tEq(a, b)
	case oEq:
		if args[0].sort == sF64 {
			a, ok1 := asIntFloat(args[0])
			b, ok2 := asIntFloat(args[1])
			if ok1 && ok2 {
				return tEq(a, b)
			}
		}
	case oFIsNaN, oFIsInf:
		if _, ok := asIntFloat(args[0]); ok {
			return mkBool(false)
		}
	case oFRound:
		if _, ok := asIntFloat(args[0]); ok {
			return args[0]
		}
	case oFAbs:
		if a, ok := asIntFloat(args[0]); ok {
			if lo, _, _ := a.bvRange(); lo >= 0 {
				return args[0]
			}
		}
	case oF2SBV:
		if a, ok := asIntFloat(args[0]); ok {
			return a
		}
		// truncation of (integer-valued float + fraction constant of the same sign side): the integer itself
		if it, c, ok := intPlusFraction(args[0]); ok {
			lo, hi, _ := it.bvRange()
			if (c >= 0 && lo >= 0) || (c <= 0 && hi <= 0) {
				return it
			}
		}
	}
	return nil
}
