package interp

// Harness intrinsics (V*) and environment models.

import (
	"fmt"
	"go/token"
	"go/types"
	"math"
	"strings"
)

var intrinsics = map[string]externalFn{}

func init() {
	mk1 := func(kind string, so ssort, t types.Type) externalFn {
		return func(fr *frame, args []value) value {
			return sym{explorer.freshVar(kind, args[0].(string), so)}
		}
	}
	intrinsics["VInt"] = mk1("int", sBV64, nil)
	intrinsics["VI64"] = mk1("i64", sBV64, nil)
	intrinsics["VU32"] = mk1("u32", sBV32, nil)
	intrinsics["VI32"] = mk1("i32", sBV32, nil)
	intrinsics["VByte"] = mk1("byte", sBV8, nil)
	intrinsics["VBool"] = mk1("bool", sBool, nil)
	intrinsics["VFloat"] = mk1("float", sF64, nil)
	intrinsics["VStr"] = func(fr *frame, args []value) value {
		n := int(asInt64(concInt(args[1])))
		s := make(symstr, n)
		for i := range s {
			s[i] = sym{explorer.freshVar("byte", args[0].(string), sBV8)}
		}
		if n == 0 {
			return ""
		}
		return s
	}
	intrinsics["VChoice"] = func(fr *frame, args []value) value {
		return explorer.choose(int(asInt64(concInt(args[0]))))
	}
	intrinsics["VAssume"] = func(fr *frame, args []value) value {
		e := explorer
		c := boolTerm(args[0])
		if c.isTrue() {
			return nil
		}
		if c.isFalse() {
			panic(pathEnd{"assume false"})
		}
		if e.pos < len(e.prefix) {
			if v, ok := e.evalModel(c); !ok || v != 1 {
				e.modelOK = false
			}
			e.assert(c)
			return nil
		}
		if v, ok := e.evalModel(c); ok && v == 1 {
			e.assert(c)
			return nil
		}
		switch e.checkWith(c, true) {
		case "sat":
			e.assert(c)
		case "unsat":
			panic(pathEnd{"assumption infeasible"})
		default:
			panic(engineAbort{"solver unknown on assumption"})
		}
		return nil
	}
	intrinsics["VAssert"] = func(fr *frame, args []value) value {
		e := explorer
		label := args[1].(string)
		c := boolTerm(args[0])
		if c.isTrue() {
			return nil
		}
		e.res.SymAsserts++
		nv := len(e.res.Violations)
		defer func() {
			for i := nv; i < len(e.res.Violations); i++ {
				e.res.Violations[i].UF = c.hasUF
			}
		}()
		inPrefix := e.pos < len(e.prefix)
		if c.isFalse() {
			if !inPrefix {
				e.ensureModel()
				e.violation("assert", label, "condition is concretely false on this path")
			}
			panic(pathEnd{"assert false"})
		}
		if inPrefix {
			// already checked by the path this one was forked from (same path condition here)
			if v, ok := e.evalModel(c); !ok || v != 1 {
				e.modelOK = false
			}
			e.assert(c)
			return nil
		}
		if !e.modelOK && !c.hasUF {
			e.ensureModel()
		}
		if v, ok := e.evalModel(c); ok && v == 0 {
			e.violation("assert", label, "")
			switch e.checkWith(c, true) {
			case "sat":
				e.assert(c)
				return nil
			case "unsat":
				panic(pathEnd{"assert fails on every input of this path"})
			default:
				panic(engineAbort{"solver unknown after violated assertion"})
			}
		} else if ok {
			// model satisfies c; look for a counterexample
			saved, savedMemo := e.model, e.memo
			if c.hasUF && len(e.ufGuards) > 0 {
				// first on the islands where the uninterpreted applications are exactly defined
				if e.checkWith(tAnd(append([]*term{tNot(c)}, e.ufGuards...)...), true) == "sat" && e.modelOK {
					e.violation("assert", label, "island model")
					e.model, e.memo, e.modelOK = saved, savedMemo, true
					e.assert(c)
					return nil
				}
				e.model, e.memo, e.modelOK = saved, savedMemo, true
			}
			switch e.checkWith(tNot(c), true) {
			case "sat":
				if e.modelOK {
					e.violation("assert", label, "")
				} else {
					e.model, e.modelOK = saved, true
					e.violation("assert", label, "model from fallback solver unavailable; inputs shown satisfy the path only")
				}
				e.model, e.memo, e.modelOK = saved, savedMemo, true
			case "unsat":
			default:
				panic(engineAbort{"solver unknown on assertion " + label})
			}
			e.assert(c)
			return nil
		}
		// cannot evaluate (uninterpreted functions): two queries.  A counterexample is looked for first where
		// every uninterpreted application has its exact definition (an "island"), because only such a
		// model is meaningful when replayed against the real functions.
		if len(e.ufGuards) > 0 {
			saved, savedMemo, savedOK := e.model, e.memo, e.modelOK
			if e.checkWith(tAnd(append([]*term{tNot(c)}, e.ufGuards...)...), true) == "sat" && e.modelOK {
				e.violation("assert", label, "island model")
				e.model, e.memo, e.modelOK = saved, savedMemo, savedOK
				switch e.checkWith(c, true) {
				case "sat":
					e.assert(c)
					return nil
				case "unsat":
					panic(pathEnd{"assert fails on every input of this path"})
				default:
					panic(engineAbort{"solver unknown on assertion " + label})
				}
			}
			e.model, e.memo, e.modelOK = saved, savedMemo, savedOK
		}
		switch e.checkWith(tNot(c), true) {
		case "sat":
			if e.modelOK {
				e.violation("assert", label, "")
			} else {
				e.violation("assert", label, "no model (fallback solver)")
			}
		case "unsat":
		default:
			panic(engineAbort{"solver unknown on assertion " + label})
		}
		switch e.checkWith(c, true) {
		case "sat":
			e.assert(c)
		case "unsat":
			panic(pathEnd{"assert fails on every input of this path"})
		default:
			panic(engineAbort{"solver unknown on assertion " + label})
		}
		return nil
	}
	intrinsics["VReach"] = func(fr *frame, args []value) value {
		explorer.res.Reach[args[0].(string)]++
		return nil
	}
	intrinsics["VAbort"] = func(fr *frame, args []value) value {
		panic(engineAbort{"harness: " + args[0].(string)})
	}
	intrinsics["VTier"] = func(fr *frame, args []value) value { return explorer.Tier }
	intrinsics["VParam"] = func(fr *frame, args []value) value {
		if v, ok := explorer.Params[args[0].(string)]; ok {
			return v
		}
		return args[1]
	}
	intrinsics["VConc"] = func(fr *frame, args []value) value { return concInt(args[0]) }
	intrinsics["VAnd"] = func(fr *frame, args []value) value {
		return lowerBool(tAnd(boolTerm(args[0]), boolTerm(args[1])))
	}
	intrinsics["VOr"] = func(fr *frame, args []value) value {
		return lowerBool(tOr(boolTerm(args[0]), boolTerm(args[1])))
	}
	intrinsics["VImp"] = func(fr *frame, args []value) value {
		return lowerBool(tImplies(boolTerm(args[0]), boolTerm(args[1])))
	}
	intrinsics["VIteI"] = func(fr *frame, args []value) value {
		return lower(tIte(boolTerm(args[0]), liftAny(args[1]), liftAny(args[2])), types.Typ[types.Int])
	}
	intrinsics["VIteF"] = func(fr *frame, args []value) value {
		return lower(tIte(boolTerm(args[0]), f64Term(args[1]), f64Term(args[2])), types.Typ[types.Float64])
	}
	// VSameF: identical floats (all NaNs identified, +0 and -0 distinguished)
	intrinsics["VSameF"] = func(fr *frame, args []value) value {
		return lowerBool(tEq(f64Term(args[0]), f64Term(args[1])))
	}
	// VEqF: x == y or both NaN
	intrinsics["VEqF"] = func(fr *frame, args []value) value {
		a, b := f64Term(args[0]), f64Term(args[1])
		return lowerBool(tOr(mk(oFEq, sBool, a, b), tAnd(mk(oFIsNaN, sBool, a), mk(oFIsNaN, sBool, b))))
	}
	intrinsics["VIsNative"] = func(fr *frame, args []value) value { return false }
	intrinsics["VNote"] = func(fr *frame, args []value) value {
		explorer.note(args[0].(string))
		return nil
	}
	// VGlobalsChanged returns the number of target package variables whose top-level value differs
	// from the post-init snapshot.
	intrinsics["VGlobalsChanged"] = func(fr *frame, args []value) value {
		d := explorer.I.GlobalsDiff()
		for _, g := range d {
			explorer.note("global written: " + g)
		}
		return len(d)
	}
}

// ---- environment models ----

func ufApply(name string, args []value) value {
	ts := make([]*term, len(args))
	for i, a := range args {
		ts[i] = f64Term(a)
	}
	return sym{mkP(oUF, sF64, 0, 0, name, ts...)}
}

// modExact is math.Mod for operands that are exact images of integers of at most 32 bits (the form symbolic
// Lua numbers take when a harness draws them from VI32/VByte): fmod is then the truncated integer remainder
// with the dividend's sign, a zero result takes the dividend's sign too, and a zero divisor gives NaN.  For
// other symbolic operands math.Mod stays an uninterpreted function (nil is returned).
func modExact(args []value) value {
	xi, ok1 := asIntFloat(f64Term(args[0]))
	yi, ok2 := asIntFloat(f64Term(args[1]))
	if !ok1 || !ok2 {
		return nil
	}
	for _, t := range []*term{xi, yi} {
		lo, hi, ok := t.bvRange()
		if !ok || lo < -(1<<31) || hi >= 1<<31 {
			return nil
		}
	}
	x32, y32 := tExtract(xi, 31, 0), tExtract(yi, 31, 0)
	// the divisor 0 is replaced by 1 inside the remainder; the outer ite selects NaN for it
	ysafe := tIte(tEq(y32, tBV(32, 0)), tBV(32, 1), y32)
	rem := tSExt(mk(oSRem, bvSort(32), x32, ysafe), 64)
	negx := mk(oSLt, sBool, xi, tBV(64, 0))
	exact := tIte(tEq(rem, tBV(64, 0)), tIte(negx, mkF64(math.Copysign(0, -1)), mkF64(0)), mk(oSBV2F, sF64, rem))
	return sym{tIte(tEq(y32, tBV(32, 0)), mkF64(math.NaN()), exact)}
}

func init() {
	// math functions: native when concrete; SMT operator or uninterpreted function when symbolic.
	type m1 struct {
		name string
		f    func(float64) float64
		op   opcode
		p0   int
	}
	for _, m := range []m1{
		{"math.Floor", math.Floor, oFRound, 1}, {"math.Ceil", math.Ceil, oFRound, 2}, {"math.Trunc", math.Trunc, oFRound, 0},
		{"math.Sqrt", math.Sqrt, oFSqrt, 0}, {"math.Abs", math.Abs, oFAbs, 0}, {"math.RoundToEven", math.RoundToEven, oFRound, 3},
	} {
		m := m
		externals[m.name] = func(fr *frame, args []value) value {
			if f, ok := args[0].(float64); ok {
				return m.f(f)
			}
			return lower(mkP(m.op, sF64, m.p0, 0, "", f64Term(args[0])), types.Typ[types.Float64])
		}
	}
	type u1 struct {
		name string
		f    func(float64) float64
	}
	for _, m := range []u1{
		{"math.Exp", math.Exp}, {"math.Log", math.Log}, {"math.Log10", math.Log10}, {"math.Log2", math.Log2},
		{"math.Sin", math.Sin}, {"math.Cos", math.Cos}, {"math.Tan", math.Tan}, {"math.Asin", math.Asin}, {"math.Acos", math.Acos},
		{"math.Atan", math.Atan}, {"math.Sinh", math.Sinh}, {"math.Cosh", math.Cosh}, {"math.Tanh", math.Tanh},
	} {
		m := m
		externals[m.name] = func(fr *frame, args []value) value {
			if f, ok := args[0].(float64); ok {
				return m.f(f)
			}
			return ufApply("UF_"+m.name[5:], args)
		}
	}
	type u2 struct {
		name string
		f    func(float64, float64) float64
	}
	for _, m := range []u2{{"math.Mod", math.Mod}, {"math.Pow", math.Pow}, {"math.Atan2", math.Atan2}, {"math.Hypot", math.Hypot}} {
		m := m
		externals[m.name] = func(fr *frame, args []value) value {
			a, ok1 := args[0].(float64)
			b, ok2 := args[1].(float64)
			if ok1 && ok2 {
				return m.f(a, b)
			}
			if m.name == "math.Mod" {
				if v := modExact(args); v != nil {
					return v
				}
			}
			return ufApply("UF_"+m.name[5:], args)
		}
	}
	externals["math.IsNaN"] = func(fr *frame, args []value) value {
		if f, ok := args[0].(float64); ok {
			return f != f
		}
		return lowerBool(mk(oFIsNaN, sBool, f64Term(args[0])))
	}
	externals["math.IsInf"] = func(fr *frame, args []value) value {
		f, ok1 := args[0].(float64)
		sg := int(asInt64(concInt(args[1])))
		if ok1 {
			return math.IsInf(f, sg)
		}
		t := f64Term(args[0])
		pos := tEq(t, mkF64(math.Inf(1)))
		neg := tEq(t, mkF64(math.Inf(-1)))
		switch {
		case sg > 0:
			return lowerBool(pos)
		case sg < 0:
			return lowerBool(neg)
		}
		return lowerBool(tOr(pos, neg))
	}
	externals["math.Signbit"] = func(fr *frame, args []value) value {
		if f, ok := args[0].(float64); ok {
			return math.Signbit(f)
		}
		t := f64Term(args[0])
		// sign bit of a non-NaN float: x < 0 or x is -0; NaN sign is unspecified in SMT -> treat as false
		return lowerBool(tOr(mk(oFLt, sBool, t, mkF64(0)), tEq(t, mkF64(math.Copysign(0, -1)))))
	}
	externals["math.Ldexp"] = func(fr *frame, args []value) value {
		f, ok1 := args[0].(float64)
		e, ok2 := args[1].(int)
		if ok1 && ok2 {
			return math.Ldexp(f, e)
		}
		var et *term
		if ok2 {
			et = mkF64(float64(e))
		} else {
			et = mk(oSBV2F, sF64, liftAny(args[1]))
		}
		return sym{mkP(oUF, sF64, 0, 0, "UF_Ldexp", f64Term(args[0]), et)}
	}
	externals["math.Frexp"] = func(fr *frame, args []value) value {
		if f, ok := args[0].(float64); ok {
			a, b := math.Frexp(f)
			return tuple{a, b}
		}
		fr1 := sym{mkP(oUF, sF64, 0, 0, "UF_FrexpFrac", f64Term(args[0]))}
		ex := sym{mk(oF2SBV, sBV64, mkP(oUF, sF64, 0, 0, "UF_FrexpExp", f64Term(args[0])))}
		return tuple{fr1, ex}
	}
	externals["math.Modf"] = func(fr *frame, args []value) value {
		if f, ok := args[0].(float64); ok {
			a, b := math.Modf(f)
			return tuple{a, b}
		}
		t := f64Term(args[0])
		ip := mkP(oFRound, sF64, 0, 0, "", t)
		// Modf(±Inf) = ±Inf, NaN ; frac = f - int
		frac := tIte(mk(oFIsInf, sBool, t), mkF64(math.NaN()), mk(oFSub, sF64, t, ip))
		return tuple{lower(ip, types.Typ[types.Float64]), lower(frac, types.Typ[types.Float64])}
	}
	externals["math.Float64bits"] = func(fr *frame, args []value) value {
		if f, ok := args[0].(float64); ok {
			return math.Float64bits(f)
		}
		return sym{mk(oF2Bits, sBV64, f64Term(args[0]))}
	}
	externals["math.Float64frombits"] = func(fr *frame, args []value) value {
		if u, ok := args[0].(uint64); ok {
			return math.Float64frombits(u)
		}
		return sym{mk(oBits2F, sF64, liftAny(args[0]))}
	}
	externals["math.Inf"] = func(fr *frame, args []value) value { return math.Inf(int(asInt64(concInt(args[0])))) }
	externals["math.NaN"] = func(fr *frame, args []value) value { return math.NaN() }
	externals["math.Copysign"] = func(fr *frame, args []value) value {
		a, ok1 := args[0].(float64)
		b, ok2 := args[1].(float64)
		if ok1 && ok2 {
			return math.Copysign(a, b)
		}
		return ufApply("UF_Copysign", args)
	}
	// the assembly kernels behind math.Max/Min: their pure-Go twins (math.max/min) are interpreted instead
	for _, n := range []string{"Max", "Min"} {
		n := n
		externals["math.arch"+n] = func(fr *frame, args []value) value {
			pure := fr.i.prog.ImportedPackage("math").Func(strings.ToLower(n))
			return call(fr.i, fr, token.NoPos, pure, args)
		}
	}
	externals["math.Max"] = nil
	externals["math.Min"] = nil
	delete(externals, "math.Max")
	delete(externals, "math.Min")

	id := func(fr *frame, args []value) value { return args[0] }
	externals["internal/stringslite.Clone"] = id
	externals["strings.Clone"] = id
	externals["internal/abi.NoEscape"] = id
	externals["(*strings.Builder).copyCheck"] = func(fr *frame, args []value) value { return nil }
	externals["internal/bytealg.MakeNoZero"] = func(fr *frame, args []value) value {
		n := int(asInt64(concInt(args[0])))
		s := make([]value, n)
		for i := range s {
			s[i] = uint8(0)
		}
		return s
	}
	externals["(*strings.Builder).String"] = func(fr *frame, args []value) value {
		st := (*args[0].(*value)).(structure)
		buf, _ := st[1].([]value)
		return normStr(append(symstr{}, buf...))
	}
	externals["unsafe.String"] = nil
	delete(externals, "unsafe.String")

	// internal/bytealg (assembler in the real build): loops over byte terms, forking per position
	byteSeq := func(v value) symstr {
		switch x := v.(type) {
		case string, symstr:
			return toSymstr(x)
		case []value:
			return symstr(x)
		}
		panic(engineAbort{fmt.Sprintf("byteSeq %T", v)})
	}
	indexByte := func(fr *frame, args []value) value {
		s := byteSeq(args[0])
		c := byteTerm(args[1])
		for i := range s {
			if explorer.decide(tEq(byteTerm(s[i]), c)) {
				return i
			}
		}
		return -1
	}
	externals["internal/bytealg.IndexByte"] = indexByte
	externals["internal/bytealg.IndexByteString"] = indexByte
	lastIndexByte := func(fr *frame, args []value) value {
		s := byteSeq(args[0])
		c := byteTerm(args[1])
		for i := len(s) - 1; i >= 0; i-- {
			if explorer.decide(tEq(byteTerm(s[i]), c)) {
				return i
			}
		}
		return -1
	}
	externals["internal/bytealg.LastIndexByte"] = lastIndexByte
	externals["internal/bytealg.LastIndexByteString"] = lastIndexByte
	count := func(fr *frame, args []value) value {
		s := byteSeq(args[0])
		c := byteTerm(args[1])
		n := 0
		for i := range s {
			if explorer.decide(tEq(byteTerm(s[i]), c)) {
				n++
			}
		}
		return n
	}
	externals["internal/bytealg.Count"] = count
	externals["internal/bytealg.CountString"] = count
	externals["internal/bytealg.Equal"] = func(fr *frame, args []value) value {
		return lowerBool(symstrEq(byteSeq(args[0]), byteSeq(args[1])))
	}
	externals["bytes.Equal"] = externals["internal/bytealg.Equal"]
	index := func(fr *frame, args []value) value {
		s, sep := byteSeq(args[0]), byteSeq(args[1])
		for i := 0; i+len(sep) <= len(s); i++ {
			if explorer.decide(symstrEq(s[i:i+len(sep)], sep)) {
				return i
			}
		}
		return -1
	}
	externals["internal/bytealg.Index"] = index
	externals["internal/bytealg.IndexString"] = index
	externals["internal/bytealg.Compare"] = func(fr *frame, args []value) value {
		a, b := byteSeq(args[0]), byteSeq(args[1])
		if explorer.decide(symstrEq(a, b)) {
			return 0
		}
		if explorer.decide(symstrLess(a, b, false)) {
			return -1
		}
		return 1
	}
	externals["internal/bytealg.MaxLen"] = nil
	delete(externals, "internal/bytealg.MaxLen")
	externals["internal/bytealg.Cutover"] = func(fr *frame, args []value) value { return 1 << 30 }
	externals["internal/cpu.Initialize"] = func(fr *frame, args []value) value { return nil }

	// the original interpreter's convenience externals are not trusted (strings.Replace swaps its
	// arguments): the real library source is interpreted instead
	for _, n := range []string{"bytes.IndexByte", "strings.IndexByte", "strings.Index", "strings.Count", "strings.EqualFold",
		"strings.Replace", "strings.ToLower", "strconv.Atoi", "strconv.Itoa", "unicode/utf8.DecodeRuneInString",
		"sort.Float64s", "sort.Ints", "sort.Strings", "math.Min"} {
		delete(externals, n)
	}
	concreteOnly["strconv.FormatFloat"] = true
	// bit-level definitions: with a symbolic argument the library's own Go source is interpreted
	concreteOnly["math.Ldexp"] = true
	concreteOnly["math.Frexp"] = true
	concreteOnly["math.Copysign"] = true
}
