package interp

// Insertion-ordered maps with support for keys that contain symbolic scalars. Replaces both map
// representations of the original interpreter so that iteration order is deterministic across the
// re-executions the explorer relies on.

import (
	"fmt"
	"go/types"

	"golang.org/x/tools/go/types/typeutil"
)

type mentry struct {
	key     value
	val     value
	deleted bool
	symKey  bool
}

type omap struct {
	keyT    types.Type
	entries []*mentry
	idx     map[interface{}]*mentry // concrete keys
	nsym    int
	live    int
}

var typeIDs typeutil.Map
var nil32 = types.Typ[types.Int32]

func typeID(t types.Type) int {
	if v := typeIDs.At(t); v != nil {
		return v.(int)
	}
	id := typeIDs.Len() + 1
	typeIDs.Set(t, id)
	return id
}

type ifaceKey struct {
	t int
	v interface{}
}

// ckey canonicalises a concrete key into a Go-comparable value with Go's == semantics.
func ckey(v value) interface{} {
	switch x := v.(type) {
	case iface:
		if x.t == nil {
			return ifaceKey{0, nil}
		}
		return ifaceKey{typeID(x.t), ckey(x.v)}
	case structure:
		s := "S("
		for _, e := range x {
			s += fmt.Sprintf("%T:%v,", ckey(e), ckey(e))
		}
		return s + ")"
	case array:
		s := "A("
		for _, e := range x {
			s += fmt.Sprintf("%T:%v,", ckey(e), ckey(e))
		}
		return s + ")"
	case []value, *omap, *closure:
		rtPanic("runtime error: hash of unhashable type")
	}
	return v
}

func makeMap(kt types.Type, reserve int64) value {
	return &omap{keyT: kt, idx: map[interface{}]*mentry{}}
}

func (m *omap) find(k value) *mentry {
	if m == nil {
		return nil
	}
	if !containsSym(k) {
		ck := ckey(k)
		if e, ok := m.idx[ck]; ok {
			return e
		}
		if m.nsym == 0 {
			return nil
		}
		for _, e := range m.entries {
			if e.deleted || !e.symKey {
				continue
			}
			if explorer.decide(eqTerm(e.key, k)) {
				return e
			}
		}
		return nil
	}
	for _, e := range m.entries {
		if e.deleted {
			continue
		}
		c := eqTerm(e.key, k)
		if c.isFalse() {
			continue
		}
		if explorer.decide(c) {
			return e
		}
	}
	return nil
}

func (m *omap) lookup(k value) (value, bool) {
	e := m.find(k)
	if e == nil {
		return nil, false
	}
	return e.val, true
}

func (m *omap) insert(k, v value) {
	if m == nil {
		rtPanic("assignment to entry in nil map")
	}
	if e := m.find(k); e != nil {
		e.val = v
		return
	}
	e := &mentry{key: k, val: v}
	if containsSym(k) {
		e.symKey = true
		m.nsym++
	} else {
		m.idx[ckey(k)] = e
	}
	m.entries = append(m.entries, e)
	m.live++
}

func (m *omap) delete(k value) {
	if m == nil {
		return
	}
	e := m.find(k)
	if e == nil {
		return
	}
	e.deleted = true
	m.live--
	if e.symKey {
		m.nsym--
	} else {
		delete(m.idx, ckey(e.key)) // the entry's own (concrete) key: k may be a symbolic key decided equal to it
	}
	if len(m.entries) > 32 && m.live*2 < len(m.entries) {
		// compaction is safe only when no iterator is active; iterators hold their own index
		// into entries, so compact lazily by leaving tombstones (bounded by harness sizes).
	}
}

func (m *omap) len() int {
	if m == nil {
		return 0
	}
	return m.live
}

type omapIter struct {
	m *omap
	i int
	// order, when non-nil, is the visiting order chosen for this iteration (indices into m.entries): the Go
	// specification leaves the iteration order of a map unspecified, so a harness that sets the parameter
	// `maporder` gets every rotation of the insertion order as a separate path (see rangeIter)
	order []int
}

func (it *omapIter) next() tuple {
	if it.order != nil {
		for it.i < len(it.order) {
			e := it.m.entries[it.order[it.i]]
			it.i++
			if !e.deleted {
				return []value{true, e.key, e.val}
			}
		}
		return []value{false, nil, nil}
	}
	if it.m != nil {
		for it.i < len(it.m.entries) {
			e := it.m.entries[it.i]
			it.i++
			if !e.deleted {
				return []value{true, e.key, e.val}
			}
		}
	}
	return []value{false, nil, nil}
}
