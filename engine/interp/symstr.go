package interp

// Strings (and byte slices) whose bytes may be symbolic; lengths are always concrete.

import (
	"fmt"
	"go/token"
)

type symstr []value // each element uint8 or sym(BV8)

func hasSymElem(xs []value) bool {
	for _, x := range xs {
		switch x.(type) {
		case sym, symstr:
			return true
		}
	}
	return false
}

func toSymstr(v value) symstr {
	switch x := v.(type) {
	case symstr:
		return x
	case string:
		r := make(symstr, len(x))
		for i := 0; i < len(x); i++ {
			r[i] = x[i]
		}
		return r
	}
	panic(engineAbort{fmt.Sprintf("toSymstr %T", v)})
}

// normStr returns a native string when no byte is symbolic.
func normStr(s symstr) value {
	if hasSymElem(s) {
		return s
	}
	b := make([]byte, len(s))
	for i, x := range s {
		b[i] = x.(uint8)
	}
	return string(b)
}

func byteTerm(v value) *term {
	switch x := v.(type) {
	case uint8:
		return tBV(8, uint64(x))
	case sym:
		return x.t
	}
	panic(engineAbort{fmt.Sprintf("byteTerm %T", v)})
}

func symstrEq(x, y symstr) *term {
	if len(x) != len(y) {
		return mkBool(false)
	}
	parts := make([]*term, 0, len(x))
	for i := range x {
		parts = append(parts, tEq(byteTerm(x[i]), byteTerm(y[i])))
	}
	return tAnd(parts...)
}

// symstrLess builds x < y (lexicographic, bytewise unsigned) as a term.
func symstrLess(x, y symstr, orEqual bool) *term {
	// from the end: less(i) = x[i]<y[i] ∨ (x[i]=y[i] ∧ less(i+1))
	n := len(x)
	if len(y) < n {
		n = len(y)
	}
	var tail *term
	switch {
	case len(x) < len(y):
		tail = mkBool(true)
	case len(x) > len(y):
		tail = mkBool(false)
	default:
		tail = mkBool(orEqual)
	}
	for i := n - 1; i >= 0; i-- {
		a, b := byteTerm(x[i]), byteTerm(y[i])
		tail = tOr(mk(oULt, sBool, a, b), tAnd(tEq(a, b), tail))
	}
	return tail
}

func symstrBinop(op token.Token, x, y value) value {
	a, b := toSymstr(x), toSymstr(y)
	switch op {
	case token.EQL:
		return lowerBool(symstrEq(a, b))
	case token.NEQ:
		return lowerBool(tNot(symstrEq(a, b)))
	case token.ADD:
		return normStr(append(append(symstr{}, a...), b...))
	case token.LSS:
		return lowerBool(symstrLess(a, b, false))
	case token.LEQ:
		return lowerBool(symstrLess(a, b, true))
	case token.GTR:
		return lowerBool(symstrLess(b, a, false))
	case token.GEQ:
		return lowerBool(symstrLess(b, a, true))
	}
	panic(engineAbort{"symstr op " + op.String()})
}

// decodeRune decodes one UTF-8 sequence at s[i:], forking on byte classes. Returns rune value
// (int32 or sym) and width.
func decodeRuneSym(s symstr, i int) (value, int) {
	b0 := s[i]
	t0, isSym0 := b0.(sym)
	if !isSym0 {
		// concrete lead byte: decode with concrete continuation where possible
		c := b0.(uint8)
		if c < 0x80 {
			return int32(c), 1
		}
	}
	var lead *term
	if isSym0 {
		lead = t0.t
	} else {
		lead = tBV(8, uint64(b0.(uint8)))
	}
	if explorer.decide(mk(oULt, sBool, lead, tBV(8, 0x80))) {
		return lower(tZExt(lead, 32), nil32), 1
	}
	// multi-byte sequences over symbolic bytes: only the 2-byte form is modelled precisely;
	// anything else is treated as in Go when it is invalid (RuneError, width 1) only if the
	// solver can show the lead byte is not a valid 2/3/4-byte lead; otherwise abort.
	isLead2 := tAnd(mk(oULe, sBool, tBV(8, 0xc2), lead), mk(oULe, sBool, lead, tBV(8, 0xdf)))
	if explorer.decide(isLead2) {
		if i+1 >= len(s) {
			return int32(0xFFFD), 1
		}
		c1 := byteTerm(s[i+1])
		cont := tEq(mk(oBAnd, sBV8, c1, tBV(8, 0xc0)), tBV(8, 0x80))
		if explorer.decide(cont) {
			r := mk(oBOr, sBV32, mk(oShl, sBV32, tZExt(mk(oBAnd, sBV8, lead, tBV(8, 0x1f)), 32), tBV(32, 6)), tZExt(mk(oBAnd, sBV8, c1, tBV(8, 0x3f)), 32))
			return lower(r, nil32), 2
		}
		return int32(0xFFFD), 1
	}
	isLead34 := tAnd(mk(oULe, sBool, tBV(8, 0xe0), lead), mk(oULe, sBool, lead, tBV(8, 0xf4)))
	if explorer.decide(isLead34) {
		if i+1 >= len(s) {
			return int32(0xFFFD), 1
		}
		// a valid 3/4-byte sequence needs continuation bytes; if the next byte cannot be a
		// continuation byte the result is RuneError/1 exactly as in Go.
		c1 := byteTerm(s[i+1])
		cont := tEq(mk(oBAnd, sBV8, c1, tBV(8, 0xc0)), tBV(8, 0x80))
		if !explorer.decide(cont) {
			return int32(0xFFFD), 1
		}
		if i+2 >= len(s) {
			// 3-byte lead with only one continuation byte available: invalid
			return int32(0xFFFD), 1
		}
		panic(engineAbort{"UTF-8: symbolic 3/4-byte sequence not modelled"})
	}
	return int32(0xFFFD), 1
}

type symstrIter struct {
	s symstr
	i int
}

func (it *symstrIter) next() tuple {
	if it.i >= len(it.s) {
		return []value{false, nil, nil}
	}
	// decode with the real unicode/utf8 source, interpreted on the symbolic bytes
	var r value
	var w int
	if b, ok := it.s[it.i].(uint8); ok && b < 0x80 {
		r, w = int32(b), 1
	} else {
		fn := theInterp.prog.ImportedPackage("unicode/utf8").Func("DecodeRuneInString")
		res := call(theInterp, curFr, token.NoPos, fn, []value{normStr(it.s[it.i:])}).(tuple)
		r, w = res[0], int(asInt64(concInt(res[1])))
	}
	k := it.i
	it.i += w
	return []value{true, k, r}
}
