package interp

// One long-lived incremental solver process per worker. Every path is a (push)…(pop) scope.

import (
	"bufio"
	"fmt"
	"io"
	"math"
	"os"
	"os/exec"
	"strconv"
	"strings"
	"time"
)

type solverProc struct {
	kind    string // "z3", "z3-new", "cvc5"
	cmd     *exec.Cmd
	in      *bufio.Writer
	inc     io.WriteCloser
	out     *bufio.Reader
	log     []string // script of the current path scope (for fallback to another solver)
	logging bool
	// lastFromFallback is set when a "sat" answer came from a one-shot fallback solver, so no
	// scope is open and no model can be read.
	lastFromFallback bool
	// wantNames/wantSorts: constants whose values a fallback run should report; fbModel: what it reported
	wantNames []string
	wantSorts []ssort
	fbModel   assignment
	// tainted: a command of the current path scope was cancelled by the time limit, so the incremental
	// solver's assertion set is incomplete; every further query of the path goes to the one-shot solvers
	tainted bool
}

// PrimaryQuickMs bounds the first, incremental attempt at a query; a query the incremental core does not
// settle in that time is handed to the one-shot solvers (whose preprocessing often decides floating-point
// queries in milliseconds that the incremental core bit-blasts for seconds), and only then retried nowhere.
var PrimaryQuickMs = 2500

// SolverTimeoutMs is the per-query budget of the primary solver.
var SolverTimeoutMs = 20000

// FallbackTimeoutS is the budget for each fallback solver on a query the primary gave up on.
var FallbackTimeoutS = 60

// PrimarySolver selects the incremental back end: z3 (4.8.12), z3-new (5.1.0) or cvc5.
var PrimarySolver = "z3"

func startSolver(kind string) *solverProc {
	var cmd *exec.Cmd
	switch kind {
	case "z3", "z3-new":
		cmd = exec.Command(kind, "-in")
	case "cvc5":
		cmd = exec.Command("cvc5", "--incremental", "--lang=smt2", "--produce-models", "--fp-exp")
	default:
		panic("unknown solver " + kind)
	}
	in, _ := cmd.StdinPipe()
	out, _ := cmd.StdoutPipe()
	cmd.Stderr = os.Stderr
	if err := cmd.Start(); err != nil {
		panic(err)
	}
	p := &solverProc{kind: kind, cmd: cmd, in: bufio.NewWriterSize(in, 1<<16), inc: in, out: bufio.NewReaderSize(out, 1<<16), logging: true}
	if kind == "cvc5" {
		p.raw("(set-logic ALL)")
	} else {
		p.raw("(set-option :produce-models true)")
		tmo := SolverTimeoutMs
		if PrimaryQuickMs > 0 && PrimaryQuickMs < tmo {
			tmo = PrimaryQuickMs
		}
		p.raw(fmt.Sprintf("(set-option :timeout %d)", tmo))
	}
	return p
}

func (p *solverProc) raw(s string) { p.in.WriteString(s); p.in.WriteByte('\n') }

// send writes a command that is part of the path scope (logged for fallback).
func (p *solverProc) send(s string) {
	if p.logging {
		p.log = append(p.log, s)
	}
	p.raw(s)
}

func (p *solverProc) line() string {
	p.in.Flush()
	l, err := p.out.ReadString('\n')
	if err != nil {
		panic(engineAbort{"solver died: " + err.Error()})
	}
	return strings.TrimSpace(l)
}

func (p *solverProc) close() {
	p.raw("(exit)")
	p.in.Flush()
	p.inc.Close()
	p.cmd.Wait()
}

// readSexp reads one balanced s-expression (possibly spanning lines).
func (p *solverProc) readSexp() string {
	p.in.Flush()
	depth := 0
	var sb strings.Builder
	started := false
	for {
		l, err := p.out.ReadString('\n')
		if err != nil {
			panic(engineAbort{"solver died: " + err.Error()})
		}
		sb.WriteString(l)
		for _, c := range l {
			if c == '(' {
				depth++
				started = true
			} else if c == ')' {
				depth--
			}
		}
		if started && depth <= 0 {
			break
		}
		if !started && strings.TrimSpace(l) != "" {
			break
		}
	}
	return sb.String()
}

// SolverStats are cumulative per worker.
type SolverStats struct {
	Queries    int
	Sat        int
	Unsat      int
	Unknown    int
	Fallbacks  int
	Errors     int
	TimeS      float64
	ModelEvals int // branch sides decided by evaluating the cached model (no query)
}

var Stats SolverStats

// LastSolverNote carries diagnostics for the next abort message.
var LastSolverNote string

// checkSat runs (check-sat) with extra assertions in an inner scope; returns "sat", "unsat" or "unknown".
// keep=true leaves the inner scope open (for a following get-value); the caller must popInner().
func (p *solverProc) checkSat(extra []string, keep bool) string {
	t0 := time.Now()
	if p.tainted {
		Stats.Queries++
		r := p.fallback(extra)
		if r == "sat" && keep {
			p.lastFromFallback = true
		}
		return r
	}
	p.raw("(push 1)")
	for _, x := range extra {
		p.raw("(assert " + x + ")")
	}
	p.raw("(check-sat)")
	canceled := false
	r := p.line()
	for strings.HasPrefix(r, "(error") || strings.HasPrefix(r, "unsupported") || r == "" {
		if strings.HasPrefix(r, "(error") && strings.Contains(r, "canceled") {
			// the time limit expired while a command other than check-sat was being processed: the query is
			// undecided by this solver, exactly as an "unknown" answer; the one-shot solvers take over
			canceled = true
			p.tainted = true
			r = p.line()
			continue
		}
		if r != "" {
			Stats.Errors++
			if !keep {
				p.raw("(pop 1)")
			}
			Stats.TimeS += time.Since(t0).Seconds()
			panic(engineAbort{"solver error: " + r})
		}
		r = p.line()
	}
	Stats.Queries++
	switch r {
	case "sat":
		Stats.Sat++
	case "unsat":
		Stats.Unsat++
	default:
		Stats.Unknown++
		r = "unknown"
	}
	if canceled {
		// whatever was answered after a cancelled command was answered about an incomplete assertion set
		if r == "sat" || r == "unsat" {
			Stats.Unknown++
		}
		r = "unknown"
	}
	if !keep || r != "sat" {
		p.raw("(pop 1)")
	}
	Stats.TimeS += time.Since(t0).Seconds()
	if d := os.Getenv("VERIF_SMT_DUMP"); d != "" && time.Since(t0).Seconds() > 0.8 {
		// development aid: keep the script of slow queries
		var sb strings.Builder
		for _, l := range p.log {
			sb.WriteString(l + "\n")
		}
		for _, x := range extra {
			sb.WriteString("(assert " + x + ")\n")
		}
		sb.WriteString("(check-sat)\n")
		os.WriteFile(fmt.Sprintf("%s/q-%d-%d.smt2", d, os.Getpid(), Stats.Queries), []byte(sb.String()), 0o644)
	}
	if r == "unknown" {
		r = p.fallback(extra)
		if r == "sat" && keep {
			p.lastFromFallback = true
		}
	}
	return r
}

func (p *solverProc) popInner() { p.raw("(pop 1)") }

// fallback replays the whole path script plus the extra assertions one-shot on the other solvers.
func (p *solverProc) fallback(extra []string) string {
	Stats.Fallbacks++
	t0 := time.Now()
	defer func() { Stats.TimeS += time.Since(t0).Seconds() }()
	var sb strings.Builder
	for _, l := range p.log {
		if strings.HasPrefix(l, "(push") || strings.HasPrefix(l, "(pop") {
			continue
		}
		sb.WriteString(l + "\n")
	}
	for _, x := range extra {
		sb.WriteString("(assert " + x + ")\n")
	}
	sb.WriteString("(check-sat)\n")
	p.fbModel = nil
	wantModel := len(p.wantNames) > 0
	if wantModel {
		const chunk = 200
		for i := 0; i < len(p.wantNames); i += chunk {
			j := i + chunk
			if j > len(p.wantNames) {
				j = len(p.wantNames)
			}
			sb.WriteString("(get-value (" + strings.Join(p.wantNames[i:j], " ") + "))\n")
		}
	}
	f, err := os.CreateTemp("", "verif-q-*.smt2")
	if err != nil {
		return "unknown"
	}
	defer os.Remove(f.Name())
	f.WriteString("(set-option :produce-models true)\n" + sb.String())
	f.Close()
	try := func(name string, args ...string) string {
		out, _ := exec.Command(name, args...).CombinedOutput()
		s := strings.TrimSpace(string(out))
		ls := strings.SplitN(s, "\n", 2)
		first := strings.TrimSpace(ls[0])
		if first == "unsat" {
			return "unsat" // the get-value commands that follow fail, as they must
		}
		if first != "sat" {
			return "unknown"
		}
		if !wantModel {
			return "sat"
		}
		if len(ls) < 2 || strings.Contains(ls[1], "(error") {
			return "sat" // satisfiable, but no model could be read
		}
		// the remaining output is one get-value answer per chunk
		env := assignment{}
		rest := ls[1]
		idx := 0
		for idx < len(p.wantNames) {
			rest = strings.TrimSpace(rest)
			if rest == "" {
				return "sat"
			}
			depth, end := 0, -1
			for k, c := range rest {
				if c == '(' {
					depth++
				} else if c == ')' {
					depth--
					if depth == 0 {
						end = k + 1
						break
					}
				}
			}
			if end < 0 {
				return "sat"
			}
			vals, ok := parseGetValue(rest[:end])
			if !ok {
				return "sat"
			}
			for _, v := range vals {
				if idx >= len(p.wantNames) {
					return "sat"
				}
				b, ok := parseValue(v, p.wantSorts[idx])
				if !ok {
					return "sat"
				}
				env[p.wantNames[idx]] = b
				idx++
			}
			rest = rest[end:]
		}
		p.fbModel = env
		return "sat"
	}
	order := [][]string{
		{"z3", fmt.Sprintf("-T:%d", SolverTimeoutMs/1000), f.Name()},
		{"z3-new", fmt.Sprintf("-T:%d", FallbackTimeoutS), f.Name()},
		{"cvc5", "--fp-exp", "--produce-models", fmt.Sprintf("--tlimit=%d", FallbackTimeoutS*1000), f.Name()},
	}
	for _, o := range order {
		if o[0] == "cvc5" {
			// cvc5 wants a logic before anything else
			b, _ := os.ReadFile(f.Name())
			os.WriteFile(f.Name(), append([]byte("(set-logic ALL)\n"), b...), 0o644)
		}
		if r := try(o[0], o[1:]...); r != "unknown" {
			return r
		}
	}
	return "unknown"
}

// getValues fetches values for the named constants from the current (sat) solver state.
func (p *solverProc) getValues(names []string, sorts []ssort) (assignment, bool) {
	env := assignment{}
	if len(names) == 0 {
		return env, true
	}
	const chunk = 200
	for i := 0; i < len(names); i += chunk {
		j := i + chunk
		if j > len(names) {
			j = len(names)
		}
		p.raw("(get-value (" + strings.Join(names[i:j], " ") + "))")
		s := p.readSexp()
		if strings.Contains(s, "(error") {
			LastSolverNote = "get-value error: " + s
			return nil, false
		}
		vals, ok := parseGetValue(s)
		if !ok || len(vals) != j-i {
			LastSolverNote = "get-value unparsable: " + s
			return nil, false
		}
		for k, v := range vals {
			b, ok := parseValue(v, sorts[i+k])
			if !ok {
				LastSolverNote = "get-value bad value: " + v
				return nil, false
			}
			env[names[i+k]] = b
		}
	}
	return env, true
}

// parseGetValue splits "((n1 v1) (n2 v2) ...)" into the value s-expressions.
func parseGetValue(s string) ([]string, bool) {
	s = strings.TrimSpace(s)
	if len(s) < 2 || s[0] != '(' {
		return nil, false
	}
	s = s[1 : len(s)-1]
	var out []string
	i := 0
	for i < len(s) {
		for i < len(s) && (s[i] == ' ' || s[i] == '\n' || s[i] == '\t' || s[i] == '\r') {
			i++
		}
		if i >= len(s) {
			break
		}
		if s[i] != '(' {
			return nil, false
		}
		// pair
		depth := 0
		j := i
		for ; j < len(s); j++ {
			if s[j] == '(' {
				depth++
			} else if s[j] == ')' {
				depth--
				if depth == 0 {
					break
				}
			}
		}
		pair := s[i+1 : j]
		// name is first token
		k := strings.IndexAny(pair, " \n\t")
		if k < 0 {
			return nil, false
		}
		out = append(out, strings.TrimSpace(pair[k:]))
		i = j + 1
	}
	return out, true
}

func parseBV(s string) (uint64, bool) {
	s = strings.TrimSpace(s)
	if strings.HasPrefix(s, "#x") {
		u, err := strconv.ParseUint(s[2:], 16, 64)
		return u, err == nil
	}
	if strings.HasPrefix(s, "#b") {
		u, err := strconv.ParseUint(s[2:], 2, 64)
		return u, err == nil
	}
	if strings.HasPrefix(s, "(_ bv") {
		f := strings.Fields(s[5:])
		u, err := strconv.ParseUint(f[0], 10, 64)
		return u, err == nil
	}
	return 0, false
}

func parseValue(v string, so ssort) (uint64, bool) {
	v = strings.Join(strings.Fields(v), " ")
	switch so {
	case sBool:
		if v == "true" {
			return 1, true
		}
		if v == "false" {
			return 0, true
		}
		return 0, false
	case sF64:
		switch {
		case strings.HasPrefix(v, "(fp "):
			f := strings.Fields(strings.TrimSuffix(v[4:], ")"))
			if len(f) != 3 {
				return 0, false
			}
			sg, ok1 := parseBV(f[0])
			ex, ok2 := parseBV(f[1])
			mn, ok3 := parseBV(f[2])
			if !ok1 || !ok2 || !ok3 {
				return 0, false
			}
			b := sg<<63 | ex<<52 | mn
			if f := math.Float64frombits(b); f != f {
				b = 0x7ff8000000000001
			}
			return b, true
		case strings.HasPrefix(v, "(_ NaN"):
			return 0x7ff8000000000001, true
		case strings.HasPrefix(v, "(_ +oo"):
			return math.Float64bits(math.Inf(1)), true
		case strings.HasPrefix(v, "(_ -oo"):
			return math.Float64bits(math.Inf(-1)), true
		case strings.HasPrefix(v, "(_ +zero"):
			return 0, true
		case strings.HasPrefix(v, "(_ -zero"):
			return 1 << 63, true
		}
		return 0, false
	}
	return parseBV(v)
}
