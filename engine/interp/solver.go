package interp

// One long-lived incremental solver process per worker. Every path is a (push)…(pop) scope.

import (
	"bufio"
	"fmt"
	"io"
	"math"
	"os"
	"os/exec"
	"strconv"
	"strings"
	"time"
)

type solverProc struct {
	kind    string // "z3", "z3-new", "cvc5"
	cmd     *exec.Cmd
	in      *bufio.Writer
	inc     io.WriteCloser
	out     *bufio.Reader
	log     []string // script of the current path scope (for fallback to another solver)
	logging bool
	// lastFromFallback is set when a "sat" answer came from a one-shot fallback solver, so no
	// scope is open and no model can be read.
	lastFromFallback bool
}

// SolverTimeoutMs is the per-query budget of the primary solver.
var SolverTimeoutMs = 20000

// FallbackTimeoutS is the budget for each fallback solver on a query the primary gave up on.
var FallbackTimeoutS = 60

// PrimarySolver selects the incremental back end: z3 (4.8.12), z3-new (5.1.0) or cvc5.
var PrimarySolver = "z3"

func startSolver(kind string) *solverProc {
	var cmd *exec.Cmd
	switch kind {
	case "z3", "z3-new":
		cmd = exec.Command(kind, "-in")
	case "cvc5":
		cmd = exec.Command("cvc5", "--incremental", "--lang=smt2", "--produce-models", "--fp-exp")
	default:
		panic("unknown solver " + kind)
	}
	in, _ := cmd.StdinPipe()
	out, _ := cmd.StdoutPipe()
	cmd.Stderr = os.Stderr
	if err := cmd.Start(); err != nil {
		panic(err)
	}
	p := &solverProc{kind: kind, cmd: cmd, in: bufio.NewWriterSize(in, 1<<16), inc: in, out: bufio.NewReaderSize(out, 1<<16), logging: true}
	if kind == "cvc5" {
		p.raw("(set-logic ALL)")
	} else {
		p.raw("(set-option :produce-models true)")
		p.raw(fmt.Sprintf("(set-option :timeout %d)", SolverTimeoutMs))
	}
	return p
}

func (p *solverProc) raw(s string) { p.in.WriteString(s); p.in.WriteByte('\n') }

// send writes a command that is part of the path scope (logged for fallback).
func (p *solverProc) send(s string) {
	if p.logging {
		p.log = append(p.log, s)
	}
	p.raw(s)
}

func (p *solverProc) line() string {
	p.in.Flush()
	l, err := p.out.ReadString('\n')
	if err != nil {
		panic(engineAbort{"solver died: " + err.Error()})
	}
	return strings.TrimSpace(l)
}

func (p *solverProc) close() {
	p.raw("(exit)")
	p.in.Flush()
	p.inc.Close()
	p.cmd.Wait()
}

// readSexp reads one balanced s-expression (possibly spanning lines).
func (p *solverProc) readSexp() string {
	p.in.Flush()
	depth := 0
	var sb strings.Builder
	started := false
	for {
		l, err := p.out.ReadString('\n')
		if err != nil {
			panic(engineAbort{"solver died: " + err.Error()})
		}
		sb.WriteString(l)
		for _, c := range l {
			if c == '(' {
				depth++
				started = true
			} else if c == ')' {
				depth--
			}
		}
		if started && depth <= 0 {
			break
		}
		if !started && strings.TrimSpace(l) != "" {
			break
		}
	}
	return sb.String()
}

// SolverStats are cumulative per worker.
type SolverStats struct {
	Queries    int
	Sat        int
	Unsat      int
	Unknown    int
	Fallbacks  int
	Errors     int
	TimeS      float64
	ModelEvals int // branch sides decided by evaluating the cached model (no query)
}

var Stats SolverStats

// LastSolverNote carries diagnostics for the next abort message.
var LastSolverNote string

// checkSat runs (check-sat) with extra assertions in an inner scope; returns "sat", "unsat" or "unknown".
// keep=true leaves the inner scope open (for a following get-value); the caller must popInner().
func (p *solverProc) checkSat(extra []string, keep bool) string {
	t0 := time.Now()
	p.raw("(push 1)")
	for _, x := range extra {
		p.raw("(assert " + x + ")")
	}
	p.raw("(check-sat)")
	r := p.line()
	for strings.HasPrefix(r, "(error") || strings.HasPrefix(r, "unsupported") || r == "" {
		if r != "" {
			Stats.Errors++
			if !keep {
				p.raw("(pop 1)")
			}
			Stats.TimeS += time.Since(t0).Seconds()
			panic(engineAbort{"solver error: " + r})
		}
		r = p.line()
	}
	Stats.Queries++
	switch r {
	case "sat":
		Stats.Sat++
	case "unsat":
		Stats.Unsat++
	default:
		Stats.Unknown++
		r = "unknown"
	}
	if !keep || r != "sat" {
		p.raw("(pop 1)")
	}
	Stats.TimeS += time.Since(t0).Seconds()
	if r == "unknown" {
		r = p.fallback(extra)
		if r == "sat" && keep {
			p.lastFromFallback = true
		}
	}
	return r
}

func (p *solverProc) popInner() { p.raw("(pop 1)") }

// fallback replays the whole path script plus the extra assertions one-shot on the other solvers.
func (p *solverProc) fallback(extra []string) string {
	Stats.Fallbacks++
	t0 := time.Now()
	defer func() { Stats.TimeS += time.Since(t0).Seconds() }()
	var sb strings.Builder
	for _, l := range p.log {
		if strings.HasPrefix(l, "(push") || strings.HasPrefix(l, "(pop") {
			continue
		}
		sb.WriteString(l + "\n")
	}
	for _, x := range extra {
		sb.WriteString("(assert " + x + ")\n")
	}
	sb.WriteString("(check-sat)\n")
	f, err := os.CreateTemp("", "verif-q-*.smt2")
	if err != nil {
		return "unknown"
	}
	defer os.Remove(f.Name())
	f.WriteString(sb.String())
	f.Close()
	try := func(name string, args ...string) string {
		out, _ := exec.Command(name, args...).CombinedOutput()
		s := strings.TrimSpace(string(out))
		if strings.Contains(s, "(error") {
			return "unknown"
		}
		ls := strings.Split(s, "\n")
		last := strings.TrimSpace(ls[len(ls)-1])
		if last == "sat" || last == "unsat" {
			return last
		}
		return "unknown"
	}
	order := [][]string{{"z3-new", fmt.Sprintf("-T:%d", FallbackTimeoutS), f.Name()}, {"cvc5", "--fp-exp", fmt.Sprintf("--tlimit=%d", FallbackTimeoutS*1000), f.Name()}}
	if p.kind == "z3-new" {
		order[0] = []string{"z3", fmt.Sprintf("-T:%d", FallbackTimeoutS), f.Name()}
	}
	for _, o := range order {
		if r := try(o[0], o[1:]...); r != "unknown" {
			return r
		}
	}
	return "unknown"
}

// getValues fetches values for the named constants from the current (sat) solver state.
func (p *solverProc) getValues(names []string, sorts []ssort) (assignment, bool) {
	env := assignment{}
	if len(names) == 0 {
		return env, true
	}
	const chunk = 200
	for i := 0; i < len(names); i += chunk {
		j := i + chunk
		if j > len(names) {
			j = len(names)
		}
		p.raw("(get-value (" + strings.Join(names[i:j], " ") + "))")
		s := p.readSexp()
		if strings.Contains(s, "(error") {
			LastSolverNote = "get-value error: " + s
			return nil, false
		}
		vals, ok := parseGetValue(s)
		if !ok || len(vals) != j-i {
			LastSolverNote = "get-value unparsable: " + s
			return nil, false
		}
		for k, v := range vals {
			b, ok := parseValue(v, sorts[i+k])
			if !ok {
				LastSolverNote = "get-value bad value: " + v
				return nil, false
			}
			env[names[i+k]] = b
		}
	}
	return env, true
}

// parseGetValue splits "((n1 v1) (n2 v2) ...)" into the value s-expressions.
func parseGetValue(s string) ([]string, bool) {
	s = strings.TrimSpace(s)
	if len(s) < 2 || s[0] != '(' {
		return nil, false
	}
	s = s[1 : len(s)-1]
	var out []string
	i := 0
	for i < len(s) {
		for i < len(s) && (s[i] == ' ' || s[i] == '\n' || s[i] == '\t' || s[i] == '\r') {
			i++
		}
		if i >= len(s) {
			break
		}
		if s[i] != '(' {
			return nil, false
		}
		// pair
		depth := 0
		j := i
		for ; j < len(s); j++ {
			if s[j] == '(' {
				depth++
			} else if s[j] == ')' {
				depth--
				if depth == 0 {
					break
				}
			}
		}
		pair := s[i+1 : j]
		// name is first token
		k := strings.IndexAny(pair, " \n\t")
		if k < 0 {
			return nil, false
		}
		out = append(out, strings.TrimSpace(pair[k:]))
		i = j + 1
	}
	return out, true
}

func parseBV(s string) (uint64, bool) {
	s = strings.TrimSpace(s)
	if strings.HasPrefix(s, "#x") {
		u, err := strconv.ParseUint(s[2:], 16, 64)
		return u, err == nil
	}
	if strings.HasPrefix(s, "#b") {
		u, err := strconv.ParseUint(s[2:], 2, 64)
		return u, err == nil
	}
	if strings.HasPrefix(s, "(_ bv") {
		f := strings.Fields(s[5:])
		u, err := strconv.ParseUint(f[0], 10, 64)
		return u, err == nil
	}
	return 0, false
}

func parseValue(v string, so ssort) (uint64, bool) {
	v = strings.Join(strings.Fields(v), " ")
	switch so {
	case sBool:
		if v == "true" {
			return 1, true
		}
		if v == "false" {
			return 0, true
		}
		return 0, false
	case sF64:
		switch {
		case strings.HasPrefix(v, "(fp "):
			f := strings.Fields(strings.TrimSuffix(v[4:], ")"))
			if len(f) != 3 {
				return 0, false
			}
			sg, ok1 := parseBV(f[0])
			ex, ok2 := parseBV(f[1])
			mn, ok3 := parseBV(f[2])
			if !ok1 || !ok2 || !ok3 {
				return 0, false
			}
			b := sg<<63 | ex<<52 | mn
			if f := math.Float64frombits(b); f != f {
				b = 0x7ff8000000000001
			}
			return b, true
		case strings.HasPrefix(v, "(_ NaN"):
			return 0x7ff8000000000001, true
		case strings.HasPrefix(v, "(_ +oo"):
			return math.Float64bits(math.Inf(1)), true
		case strings.HasPrefix(v, "(_ -oo"):
			return math.Float64bits(math.Inf(-1)), true
		case strings.HasPrefix(v, "(_ +zero"):
			return 0, true
		case strings.HasPrefix(v, "(_ -zero"):
			return 1 << 63, true
		}
		return 0, false
	}
	return parseBV(v)
}
