// Copyright 2013 The Go Authors. All rights reserved.
// Use of this source code is governed by a BSD-style
// license that can be found in the LICENSE file.

// Package ssa/interp defines an interpreter for the SSA
// representation of Go programs.
//
// This interpreter is provided as an adjunct for testing the SSA
// construction algorithm.  Its purpose is to provide a minimal
// metacircular implementation of the dynamic semantics of each SSA
// instruction.  It is not, and will never be, a production-quality Go
// interpreter.
//
// The following is a partial list of Go features that are currently
// unsupported or incomplete in the interpreter.
//
// * Unsafe operations, including all uses of unsafe.Pointer, are
// impossible to support given the "boxed" value representation we
// have chosen.
//
// * The reflect package is only partially implemented.
//
// * The "testing" package is no longer supported because it
// depends on low-level details that change too often.
//
// * "sync/atomic" operations are not atomic due to the "boxed" value
// representation: it is not possible to read, modify and write an
// interface value atomically. As a consequence, Mutexes are currently
// broken.
//
// * recover is only partially implemented.  Also, the interpreter
// makes no attempt to distinguish target panics from interpreter
// crashes.
//
// * the sizes of the int, uint and uintptr types in the target
// program are assumed to be the same as those of the interpreter
// itself.
//
// * all values occupy space, even those of types defined by the spec
// to have zero size, e.g. struct{}.  This can cause asymptotic
// performance degradation.
//
// * os.Exit is implemented using panic, causing deferred functions to
// run.
package interp // import "golang.org/x/tools/go/ssa/interp"

import (
	"fmt"
	"go/token"
	"go/types"
	"log"
	"os"
	"reflect"
	"runtime"
	"slices"
	"strings"
	"sync/atomic"
	_ "unsafe"

	"golang.org/x/tools/go/ssa"
)

var callDepth int

type continuation int

const (
	kNext continuation = iota
	kReturn
	kJump
)

// Mode is a bitmask of options affecting the interpreter.
type Mode uint

const (
	DisableRecover Mode = 1 << iota // Disable recover() in target programs; show interpreter crash instead.
	EnableTracing                   // Print a trace of all instructions as they are interpreted.
)

type methodSet map[string]*ssa.Function

// State shared between all interpreted goroutines.
type interpreter struct {
	osArgs             []value                // the value of os.Args
	prog               *ssa.Program           // the SSA program
	globals            map[*ssa.Global]*value // addresses of global variables (immutable)
	mode               Mode                   // interpreter options
	reflectPackage     *ssa.Package           // the fake reflect package
	errorMethods       methodSet              // the method set of reflect.error, which implements the error interface.
	rtypeMethods       methodSet              // the method set of rtype, which implements the reflect.Type interface.
	runtimeErrorString types.Type             // the runtime.errorString type
	sizes              types.Sizes            // the effective type-sizing function
	goroutines         int32                  // atomically updated
}

type deferred struct {
	fn    value
	args  []value
	instr *ssa.Defer
	tail  *deferred
}

type frame struct {
	i                *interpreter
	caller           *frame
	fn               *ssa.Function
	block, prevBlock *ssa.BasicBlock
	env              map[ssa.Value]value // dynamic values of SSA variables
	locals           []value
	defers           *deferred
	result           value
	panicking        bool
	panic            interface{}
	phitemps         []value // temporaries for parallel phi assignment
	depth            int
}

func (fr *frame) get(key ssa.Value) value {
	switch key := key.(type) {
	case nil:
		// Hack; simplifies handling of optional attributes
		// such as ssa.Slice.{Low,High}.
		return nil
	case *ssa.Function, *ssa.Builtin:
		return key
	case *ssa.Const:
		return constValue(key)
	case *ssa.Global:
		if r, ok := fr.i.globals[key]; ok {
			return r
		}
	}
	if r, ok := fr.env[key]; ok {
		return r
	}
	panic(fmt.Sprintf("get: no value for %T: %v", key, key.Name()))
}

// runDefer runs a deferred call d.
// It always returns normally, but may set or clear fr.panic.
func (fr *frame) runDefer(d *deferred) {
	if fr.i.mode&EnableTracing != 0 {
		fmt.Fprintf(os.Stderr, "%s: invoking deferred function call\n",
			fr.i.prog.Fset.Position(d.instr.Pos()))
	}
	var ok bool
	defer func() {
		if !ok {
			// Deferred call created a new state of panic.
			fr.panicking = true
			fr.panic = classifyPanic(recover())
		}
	}()
	call(fr.i, fr, d.instr.Pos(), d.fn, d.args)
	ok = true
}

// runDefers executes fr's deferred function calls in LIFO order.
//
// On entry, fr.panicking indicates a state of panic; if
// true, fr.panic contains the panic value.
//
// On completion, if a deferred call started a panic, or if no
// deferred call recovered from a previous state of panic, then
// runDefers itself panics after the last deferred call has run.
//
// If there was no initial state of panic, or it was recovered from,
// runDefers returns normally.
func (fr *frame) runDefers() {
	for d := fr.defers; d != nil; d = d.tail {
		fr.runDefer(d)
	}
	fr.defers = nil
	if fr.panicking {
		panic(fr.panic) // new panic, or still panicking
	}
}

// lookupMethod returns the method set for type typ, which may be one
// of the interpreter's fake types.
func lookupMethod(i *interpreter, typ types.Type, meth *types.Func) *ssa.Function {
	return i.prog.LookupMethod(typ, meth.Pkg(), meth.Name())
}

// visitInstr interprets a single ssa.Instruction within the activation
// record frame.  It returns a continuation value indicating where to
// read the next instruction from.
func visitInstr(fr *frame, instr ssa.Instruction) continuation {
	switch instr := instr.(type) {
	case *ssa.DebugRef:
		// no-op

	case *ssa.UnOp:
		fr.env[instr] = unop(instr, fr.get(instr.X))

	case *ssa.BinOp:
		fr.env[instr] = binopT(instr, fr.get(instr.X), fr.get(instr.Y))

	case *ssa.Call:
		fn, args := prepareCall(fr, &instr.Call)
		fr.env[instr] = call(fr.i, fr, instr.Pos(), fn, args)

	case *ssa.ChangeInterface:
		fr.env[instr] = fr.get(instr.X)

	case *ssa.ChangeType:
		fr.env[instr] = fr.get(instr.X) // (can't fail)

	case *ssa.Convert:
		fr.env[instr] = conv(instr.Type(), instr.X.Type(), fr.get(instr.X))

	case *ssa.SliceToArrayPointer:
		fr.env[instr] = sliceToArrayPointer(instr.Type(), instr.X.Type(), fr.get(instr.X))

	case *ssa.MakeInterface:
		fr.env[instr] = iface{t: instr.X.Type(), v: fr.get(instr.X)}

	case *ssa.Extract:
		fr.env[instr] = fr.get(instr.Tuple).(tuple)[instr.Index]

	case *ssa.Slice:
		sx := fr.get(instr.X)
		fr.env[instr] = slice(sx, concBound(sx, fr.get(instr.Low)), concBound(sx, fr.get(instr.High)), concBound(sx, fr.get(instr.Max)))

	case *ssa.Return:
		switch len(instr.Results) {
		case 0:
		case 1:
			fr.result = fr.get(instr.Results[0])
		default:
			var res []value
			for _, r := range instr.Results {
				res = append(res, fr.get(r))
			}
			fr.result = tuple(res)
		}
		fr.block = nil
		return kReturn

	case *ssa.RunDefers:
		fr.runDefers()

	case *ssa.Panic:
		panic(targetPanic{fr.get(instr.X)})

	case *ssa.Send:
		fr.get(instr.Chan).(chan value) <- fr.get(instr.X)

	case *ssa.Store:
		addr := fr.get(instr.Addr)
		if sp, ok := addr.(*symElemPtr); ok {
			addr = sp.concretize()
		}
		store(mustDeref(instr.Addr.Type()), addr.(*value), fr.get(instr.Val))

	case *ssa.If:
		succ := 1
		c := fr.get(instr.Cond)
		if sc, ok := c.(sym); ok {
			c = explorer.decide(sc.t)
		}
		if c.(bool) {
			succ = 0
		}
		fr.prevBlock, fr.block = fr.block, fr.block.Succs[succ]
		return kJump

	case *ssa.Jump:
		fr.prevBlock, fr.block = fr.block, fr.block.Succs[0]
		return kJump

	case *ssa.Defer:
		fn, args := prepareCall(fr, &instr.Call)
		defers := &fr.defers
		if into := fr.get(instr.DeferStack); into != nil {
			defers = into.(**deferred)
		}
		*defers = &deferred{
			fn:    fn,
			args:  args,
			instr: instr,
			tail:  *defers,
		}

	case *ssa.Go:
		fn, args := prepareCall(fr, &instr.Call)
		atomic.AddInt32(&fr.i.goroutines, 1)
		go func() {
			call(fr.i, nil, instr.Pos(), fn, args)
			atomic.AddInt32(&fr.i.goroutines, -1)
		}()

	case *ssa.MakeChan:
		fr.env[instr] = make(chan value, asInt64(fr.get(instr.Size)))

	case *ssa.Alloc:
		var addr *value
		if instr.Heap {
			// new
			addr = new(value)
			fr.env[instr] = addr
		} else {
			// local
			addr = fr.env[instr].(*value)
		}
		*addr = zero(mustDeref(instr.Type()))

	case *ssa.MakeSlice:
		capv, lenv := concInt(fr.get(instr.Cap)), concInt(fr.get(instr.Len))
		if asInt64(lenv) < 0 || asInt64(capv) < asInt64(lenv) {
			rtPanic("runtime error: makeslice: len out of range")
		}
		if asInt64(capv) > 1<<24 {
			panic(engineAbort{"BOUND-EXCEEDED: make([]T) with more than 2^24 elements"})
		}
		slice := make([]value, asInt64(capv))
		tElt := instr.Type().Underlying().(*types.Slice).Elem()
		for i := range slice {
			slice[i] = zero(tElt)
		}
		fr.env[instr] = slice[:asInt64(lenv)]

	case *ssa.MakeMap:
		var reserve int64
		if instr.Reserve != nil {
			reserve = asInt64(fr.get(instr.Reserve))
		}
		if !fitsInt(reserve, fr.i.sizes) {
			panic(fmt.Sprintf("ssa.MakeMap.Reserve value %d does not fit in int", reserve))
		}
		fr.env[instr] = makeMap(instr.Type().Underlying().(*types.Map).Key(), reserve)

	case *ssa.Range:
		fr.env[instr] = rangeIter(fr.get(instr.X), instr.X.Type())

	case *ssa.Next:
		fr.env[instr] = fr.get(instr.Iter).(iter).next()

	case *ssa.FieldAddr:
		xp := fr.get(instr.X).(*value)
		if xp == nil {
			rtPanic("invalid memory address or nil pointer dereference")
		}
		fr.env[instr] = &(*xp).(structure)[instr.Field]

	case *ssa.Field:
		fr.env[instr] = fr.get(instr.X).(structure)[instr.Field]

	case *ssa.IndexAddr:
		x := fr.get(instr.X)
		idx := fr.get(instr.Index)
		if sp := trySymElemPtr(x, idx, instr.Index.Type()); sp != nil {
			fr.env[instr] = sp
			break
		}
		idx = concIndex(x, idx, instr.Index.Type())
		switch x := x.(type) {
		case []value:
			fr.env[instr] = &x[asInt64(idx)]
		case *value: // *array
			fr.env[instr] = &(*x).(array)[asInt64(idx)]
		default:
			panic(fmt.Sprintf("unexpected x type in IndexAddr: %T", x))
		}

	case *ssa.Index:
		x := fr.get(instr.X)
		idx := fr.get(instr.Index)
		if sp := trySymElemPtr(x, idx, instr.Index.Type()); sp != nil {
			fr.env[instr] = sp.load()
			break
		}
		idx = concIndex(x, idx, instr.Index.Type())

		switch x := x.(type) {
		case array:
			fr.env[instr] = x[asInt64(idx)]
		case symstr:
			fr.env[instr] = x[asInt64(idx)]
		case string:
			fr.env[instr] = x[asInt64(idx)]
		default:
			panic(fmt.Sprintf("unexpected x type in Index: %T", x))
		}

	case *ssa.Lookup:
		fr.env[instr] = lookup(instr, fr.get(instr.X), fr.get(instr.Index))

	case *ssa.MapUpdate:
		m := fr.get(instr.Map)
		key := fr.get(instr.Key)
		v := fr.get(instr.Value)
		m.(*omap).insert(key, v)

	case *ssa.TypeAssert:
		fr.env[instr] = typeAssert(fr.i, instr, fr.get(instr.X).(iface))

	case *ssa.MakeClosure:
		var bindings []value
		for _, binding := range instr.Bindings {
			bindings = append(bindings, fr.get(binding))
		}
		fr.env[instr] = &closure{instr.Fn.(*ssa.Function), bindings}

	case *ssa.Phi:
		log.Fatal("unreachable") // phis are processed at block entry

	case *ssa.Select:
		var cases []reflect.SelectCase
		if !instr.Blocking {
			cases = append(cases, reflect.SelectCase{
				Dir: reflect.SelectDefault,
			})
		}
		for _, state := range instr.States {
			var dir reflect.SelectDir
			if state.Dir == types.RecvOnly {
				dir = reflect.SelectRecv
			} else {
				dir = reflect.SelectSend
			}
			var send reflect.Value
			if state.Send != nil {
				send = reflect.ValueOf(fr.get(state.Send))
			}
			cases = append(cases, reflect.SelectCase{
				Dir:  dir,
				Chan: reflect.ValueOf(fr.get(state.Chan)),
				Send: send,
			})
		}
		chosen, recv, recvOk := reflect.Select(cases)
		if !instr.Blocking {
			chosen-- // default case should have index -1.
		}
		r := tuple{chosen, recvOk}
		for i, st := range instr.States {
			if st.Dir == types.RecvOnly {
				var v value
				if i == chosen && recvOk {
					// No need to copy since send makes an unaliased copy.
					v = recv.Interface().(value)
				} else {
					v = zero(st.Chan.Type().Underlying().(*types.Chan).Elem())
				}
				r = append(r, v)
			}
		}
		fr.env[instr] = r

	default:
		panic(fmt.Sprintf("unexpected instruction: %T", instr))
	}

	// if val, ok := instr.(ssa.Value); ok {
	// 	fmt.Println(toString(fr.env[val])) // debugging
	// }

	return kNext
}

// prepareCall determines the function value and argument values for a
// function call in a Call, Go or Defer instruction, performing
// interface method lookup if needed.
func prepareCall(fr *frame, call *ssa.CallCommon) (fn value, args []value) {
	v := fr.get(call.Value)
	if call.Method == nil {
		// Function call.
		fn = v
	} else {
		// Interface method invocation.
		recv := v.(iface)
		if recv.t == nil {
			rtPanic("invalid memory address or nil pointer dereference (method invoked on nil interface) at " + trail())
		}
		if f := lookupMethod(fr.i, recv.t, call.Method); f == nil {
			// Unreachable in well-typed programs.
			panic(fmt.Sprintf("method set for dynamic type %v does not contain %s", recv.t, call.Method))
		} else {
			fn = f
		}
		args = append(args, recv.v)
	}
	for _, arg := range call.Args {
		args = append(args, fr.get(arg))
	}
	return
}

// call interprets a call to a function (function, builtin or closure)
// fn with arguments args, returning its result.
// callpos is the position of the callsite.
func call(i *interpreter, caller *frame, callpos token.Pos, fn value, args []value) value {
	switch fn := fn.(type) {
	case *ssa.Function:
		if fn == nil {
			rtPanic("invalid memory address or nil pointer dereference (call of nil function)")
		}
		return callSSA(i, caller, callpos, fn, args, nil)
	case *closure:
		return callSSA(i, caller, callpos, fn.Fn, args, fn.Env)
	case *ssa.Builtin:
		return callBuiltin(caller, callpos, fn, args)
	}
	panic(fmt.Sprintf("cannot call %T", fn))
}

func loc(fset *token.FileSet, pos token.Pos) string {
	if pos == token.NoPos {
		return ""
	}
	return " at " + fset.Position(pos).String()
}

// callSSA interprets a call to function fn with arguments args,
// and lexical environment env, returning its result.
// callpos is the position of the callsite.
// useBody is returned by a model that wants the function's own SSA body interpreted for these arguments.
type useBody struct{}

func callSSA(i *interpreter, caller *frame, callpos token.Pos, fn *ssa.Function, args []value, env []value) value {
	if i.mode&EnableTracing != 0 {
		fset := fn.Prog.Fset
		// TODO(adonovan): fix: loc() lies for external functions.
		fmt.Fprintf(os.Stderr, "Entering %s%s.\n", fn, loc(fset, fn.Pos()))
		suffix := ""
		if caller != nil {
			suffix = ", resuming " + caller.fn.String() + loc(fset, callpos)
		}
		defer fmt.Fprintf(os.Stderr, "Leaving %s%s.\n", fn, suffix)
	}
	fr := &frame{
		i:      i,
		caller: caller, // for panic/recover
		fn:     fn,
	}
	if fn.Parent() == nil {
		info := getInfo(fn)
		if info.skip {
			return nil
		}
		if info.stub != nil {
			if explorer != nil && explorer.stubsUsed != nil {
				explorer.stubsUsed[info.name] = true
			}
			return callSSA(i, caller, callpos, info.stub, args, nil)
		}
		if info.ext != nil && (!info.concOnly || !anySym(args)) {
			if r := info.ext(fr, args); r != (useBody{}) {
				return r
			}
			// the model declined: interpret the function's own source
		}
		if fn.Blocks == nil && fn.Pkg != nil {
			fn.Pkg.Build()
		}
		if fn.Blocks == nil {
			panic(engineAbort{"no code for function: " + info.name})
		}
	}

	// generic function body?
	if fn.TypeParams().Len() > 0 && len(fn.TypeArgs()) == 0 {
		panic("interp requires ssa.BuilderMode to include InstantiateGenerics to execute generics")
	}

	CallTrail = append(CallTrail, fn.String())
	if len(CallTrail) > 24 {
		CallTrail = CallTrail[len(CallTrail)-12:]
	}
	if explorer != nil && explorer.funcsSeen != nil {
		explorer.funcsSeen[fn] = true
	}
	fr.env = make(map[ssa.Value]value)
	fr.block = fn.Blocks[0]
	fr.locals = make([]value, len(fn.Locals))
	for i, l := range fn.Locals {
		fr.locals[i] = zero(mustDeref(l.Type()))
		fr.env[l] = &fr.locals[i]
	}
	for i, p := range fn.Params {
		fr.env[p] = args[i]
	}
	for i, fv := range fn.FreeVars {
		fr.env[fv] = env[i]
	}
	prevFr := curFr
	curFr = fr
	callDepth++
	fr.depth = callDepth
	if callDepth > 20000 {
		callDepth = 0
		panic(engineAbort{"BOUND-EXCEEDED: interpreter call depth above 20000 (unbounded recursion in the target?)"})
	}
	for fr.block != nil {
		runFrame(fr)
		curFr = fr
	}
	curFr = prevFr
	callDepth--
	// Destroy the locals to avoid accidental use after return.
	for i := range fn.Locals {
		fr.locals[i] = bad{}
	}
	return fr.result
}

// runFrame executes SSA instructions starting at fr.block and
// continuing until a return, a panic, or a recovered panic.
//
// After a panic, runFrame panics.
//
// After a normal return, fr.result contains the result of the call
// and fr.block is nil.
//
// A recovered panic in a function without named return parameters
// (NRPs) becomes a normal return of the zero value of the function's
// result type.
//
// After a recovered panic in a function with NRPs, fr.result is
// undefined and fr.block contains the block at which to resume
// control.
func runFrame(fr *frame) {
	defer func() {
		if fr.block == nil {
			return // normal return
		}
		if fr.i.mode&DisableRecover != 0 {
			return // let interpreter crash
		}
		fr.panicking = true
		callDepth = fr.depth
		curFr = fr
		fr.panic = classifyPanic(recover())
		if fr.i.mode&EnableTracing != 0 {
			fmt.Fprintf(os.Stderr, "Panicking: %T %v.\n", fr.panic, fr.panic)
		}
		fr.runDefers()
		fr.block = fr.fn.Recover
	}()

	for {
		if fr.i.mode&EnableTracing != 0 {
			fmt.Fprintf(os.Stderr, ".%s:\n", fr.block)
		}

		nonPhis := executePhis(fr)
		for _, instr := range nonPhis {
			if fr.i.mode&EnableTracing != 0 {
				if v, ok := instr.(ssa.Value); ok {
					fmt.Fprintln(os.Stderr, "\t", v.Name(), "=", instr)
				} else {
					fmt.Fprintln(os.Stderr, "\t", instr)
				}
			}
			InstrCount++
			if InstrCount&0xffff == 0 {
				checkBudget()
			}
			if visitInstr(fr, instr) == kReturn {
				return
			}
			// Inv: kNext (continue) or kJump (last instr)
		}
	}
}

// executePhis executes the phi-nodes at the start of the current
// block and returns the non-phi instructions.
func executePhis(fr *frame) []ssa.Instruction {
	firstNonPhi := -1
	for i, instr := range fr.block.Instrs {
		if _, ok := instr.(*ssa.Phi); !ok {
			firstNonPhi = i
			break
		}
	}
	// Inv: 0 <= firstNonPhi; every block contains a non-phi.

	nonPhis := fr.block.Instrs[firstNonPhi:]
	if firstNonPhi > 0 {
		phis := fr.block.Instrs[:firstNonPhi]
		// Execute parallel assignment of phis.
		//
		// See "the swap problem" in Briggs et al's "Practical Improvements
		// to the Construction and Destruction of SSA Form" for discussion.
		predIndex := slices.Index(fr.block.Preds, fr.prevBlock)
		fr.phitemps = fr.phitemps[:0]
		for _, phi := range phis {
			phi := phi.(*ssa.Phi)
			if fr.i.mode&EnableTracing != 0 {
				fmt.Fprintln(os.Stderr, "\t", phi.Name(), "=", phi)
			}
			fr.phitemps = append(fr.phitemps, fr.get(phi.Edges[predIndex]))
		}
		for i, phi := range phis {
			fr.env[phi.(*ssa.Phi)] = fr.phitemps[i]
		}
	}
	return nonPhis
}

// doRecover implements the recover() built-in.
func doRecover(caller *frame) value {
	// recover() must be exactly one level beneath the deferred
	// function (two levels beneath the panicking function) to
	// have any effect.  Thus we ignore both "defer recover()" and
	// "defer f() -> g() -> recover()".
	if caller.i.mode&DisableRecover == 0 &&
		caller != nil && !caller.panicking &&
		caller.caller != nil && caller.caller.panicking {
		caller.caller.panicking = false
		p := caller.caller.panic
		caller.caller.panic = nil

		// TODO(adonovan): support runtime.Goexit.
		switch p := p.(type) {
		case targetPanic:
			// The target program explicitly called panic().
			return p.v
		case runtime.Error:
			// The interpreter encountered a runtime error.
			return iface{caller.i.runtimeErrorString, strings.TrimPrefix(p.Error(), "runtime error: ")}
		default:
			panic(fmt.Sprintf("unexpected panic type %T in target call to recover()", p))
		}
	}
	return iface{}
}

// Interpret interprets the Go program whose main package is mainpkg.
// mode specifies various interpreter options.  filename and args are
// the initial values of os.Args for the target program.  sizes is the
// effective type-sizing function for this program.
//
// Interpret returns the exit code of the program: 2 for panic (like
// gc does), or the argument to os.Exit for normal termination.
//
// The SSA program must include the "runtime" package.
//
// Type parameterized functions must have been built with
// InstantiateGenerics in the ssa.BuilderMode to be interpreted.
func Interpret(mainpkg *ssa.Package, mode Mode, sizes types.Sizes, filename string, args []string) (exitCode int) {
	i := &interpreter{
		prog:       mainpkg.Prog,
		globals:    make(map[*ssa.Global]*value),
		mode:       mode,
		sizes:      sizes,
		goroutines: 1,
	}
	runtimePkg := i.prog.ImportedPackage("runtime")
	if runtimePkg == nil {
		panic("ssa.Program doesn't include runtime package")
	}
	i.runtimeErrorString = runtimePkg.Type("errorString").Object().Type()


	i.osArgs = append(i.osArgs, filename)
	for _, arg := range args {
		i.osArgs = append(i.osArgs, arg)
	}

	for _, pkg := range i.prog.AllPackages() {
		// Initialize global storage.
		for _, m := range pkg.Members {
			switch v := m.(type) {
			case *ssa.Global:
				cell := zero(mustDeref(v.Type()))
				i.globals[v] = &cell
			}
		}
	}

	// Top-level error handler.
	exitCode = 2
	defer func() {
		if exitCode != 2 || i.mode&DisableRecover != 0 {
			return
		}
		switch p := recover().(type) {
		case exitPanic:
			exitCode = int(p)
			return
		case targetPanic:
			fmt.Fprintln(os.Stderr, "panic:", toString(p.v))
		case runtime.Error:
			fmt.Fprintln(os.Stderr, "panic:", p.Error())
		case string:
			fmt.Fprintln(os.Stderr, "panic:", p)
		default:
			fmt.Fprintf(os.Stderr, "panic: unexpected type: %T: %v\n", p, p)
		}

		// TODO(adonovan): dump panicking interpreter goroutine?
		// buf := make([]byte, 0x10000)
		// runtime.Stack(buf, false)
		// fmt.Fprintln(os.Stderr, string(buf))
		// (Or dump panicking target goroutine?)
	}()

	// Run!
	call(i, nil, token.NoPos, mainpkg.Func("init"), nil)
	if mainFn := mainpkg.Func("main"); mainFn != nil {
		call(i, nil, token.NoPos, mainFn, nil)
		exitCode = 0
	} else {
		fmt.Fprintln(os.Stderr, "No main function.")
		exitCode = 1
	}
	return
}

func mustDeref(t types.Type) types.Type {
	if p, ok := t.Underlying().(*types.Pointer); ok {
		return p.Elem()
	}
	panic("mustDeref: not a pointer: " + t.String())
}

