package interp

// Environment stubs: formatting, allocator hack, time, sync.

import (
	"fmt"
	"go/token"
	"go/types"

	"golang.org/x/tools/go/ssa"
)

// opaqueStr is the result of formatting a symbolic value: it may be stored, concatenated and
// passed on, but any inspection (len, index, compare) aborts the path as inconclusive.
type opaqueStr struct{ desc string }

func isOpaque(v value) bool { _, ok := v.(opaqueStr); return ok }

func (fr *frame) nativeArg(v value, sawSym *bool) interface{} { return fr.nativeArgV(v, sawSym, true) }

func (fr *frame) nativeArgV(v value, sawSym *bool, useMethods bool) interface{} {
	switch x := v.(type) {
	case iface:
		if x.t == nil {
			return nil
		}
		if useMethods {
			for _, mname := range []string{"Error", "String"} {
				ms := fr.i.prog.MethodSets.MethodSet(x.t)
				sel := ms.Lookup(nil, mname)
				if sel == nil {
					if p := pkgOf(x.t); p != nil {
						sel = ms.Lookup(p, mname)
					}
				}
				if sel == nil {
					continue
				}
				sig := sel.Type().(*types.Signature)
				if sig.Params().Len() != 0 || sig.Results().Len() != 1 || !isStringType(sig.Results().At(0).Type()) {
					continue
				}
				fn := fr.i.prog.MethodValue(sel)
				if fn == nil {
					continue
				}
				r := call(fr.i, fr, token.NoPos, fn, []value{x.v})
				return fr.nativeArg(r, sawSym)
			}
		}
		return fr.nativeArg(x.v, sawSym)
	case sym:
		*sawSym = true
		return "<sym>"
	case symstr:
		*sawSym = true
		return "<symstr>"
	case opaqueStr:
		*sawSym = true
		return "<opaque>"
	case *value:
		if x == nil {
			return nil
		}
		return fmt.Sprintf("%p", x)
	case structure, []value, array, *omap, *closure, *ssa.Function:
		return fmt.Sprintf("<%T>", x)
	}
	return v
}

func pkgOf(t types.Type) *types.Package {
	if p, ok := t.(*types.Pointer); ok {
		t = p.Elem()
	}
	if n, ok := t.(*types.Named); ok && n.Obj() != nil {
		return n.Obj().Pkg()
	}
	return nil
}

func isStringType(t types.Type) bool {
	b, ok := t.Underlying().(*types.Basic)
	return ok && b.Kind() == types.String
}

// symSprintf renders formats whose only symbolic arguments are strings under %s / %v: the result
// is a string with symbolic bytes rather than an opaque value.
func (fr *frame) symSprintf(format string, args []value) (value, bool) {
	out := symstr{}
	ai := 0
	for i := 0; i < len(format); i++ {
		c := format[i]
		if c != '%' {
			out = append(out, c)
			continue
		}
		i++
		if i >= len(format) {
			return nil, false
		}
		v := format[i]
		if v == '%' {
			out = append(out, byte('%'))
			continue
		}
		if ai >= len(args) {
			return nil, false
		}
		a := args[ai]
		ai++
		if ia, ok := a.(iface); ok {
			a = ia.v
			if ia.t == nil {
				return nil, false
			}
		}
		switch x := a.(type) {
		case symstr:
			if v != 's' && v != 'v' {
				return nil, false
			}
			out = append(out, x...)
		case string:
			if v != 's' && v != 'v' {
				return nil, false
			}
			out = append(out, toSymstr(x)...)
		case int:
			if v != 'd' && v != 'v' {
				return nil, false
			}
			out = append(out, toSymstr(fmt.Sprint(x))...)
		default:
			return nil, false
		}
	}
	if ai != len(args) {
		return nil, false
	}
	return normStr(out), true
}

func (fr *frame) sprintf(format string, args []value) value {
	for _, a := range args {
		if ia, ok := a.(iface); ok {
			a = ia.v
		}
		if _, ok := a.(symstr); ok {
			if r, ok := fr.symSprintf(format, args); ok {
				return r
			}
			break
		}
	}
	var na []interface{}
	saw := false
	verbs := formatVerbs(format)
	for i, a := range args {
		use := true
		if i < len(verbs) {
			use = verbs[i] == 'v' || verbs[i] == 's' || verbs[i] == 'q'
		}
		na = append(na, fr.nativeArgV(a, &saw, use))
	}
	s := fmt.Sprintf(format, na...)
	if saw {
		return opaqueStr{s}
	}
	return s
}

func init() {
	externals["fmt.Sprintf"] = func(fr *frame, args []value) value {
		if isOpaque(args[0]) {
			return args[0]
		}
		// an argument with its own Format method (lua.LNumber, lua.LString): only the library's real
		// directive parser calls it the way the program will see it, so fmt's source is interpreted
		if _, ok := args[0].(string); ok && hasFormatter(args[1].([]value)) {
			return useBody{}
		}
		if _, ok := args[0].(symstr); ok {
			// a format string with symbolic bytes: the library's own directive parser is interpreted
			return useBody{}
		}
		return fr.sprintf(args[0].(string), args[1].([]value))
	}
	externals["fmt.Sprint"] = func(fr *frame, args []value) value {
		var na []interface{}
		saw := false
		for _, a := range args[0].([]value) {
			na = append(na, fr.nativeArg(a, &saw))
		}
		s := fmt.Sprint(na...)
		if saw {
			return opaqueStr{s}
		}
		return s
	}
	externals["fmt.Errorf"] = func(fr *frame, args []value) value {
		s := fr.sprintf(args[0].(string), args[1].([]value))
		// build an *errors.errorString via errors.New
		errorsPkg := fr.i.prog.ImportedPackage("errors")
		return call(fr.i, fr, token.NoPos, errorsPkg.Func("New"), []value{s})
	}
	externals["(*github.com/yuin/gopher-lua.allocator).LNumber2I"] = func(fr *frame, args []value) value {
		return iface{fr.fn.Signature.Params().At(0).Type(), args[1]}
	}
	// sync.Pool: Get returns nil (callers then allocate); Put drops. A harness may bind its own
	// nondeterministic stub with //verif:stub.
	// sync.Pool per its contract: Get returns nil or any previously Put object, un-zeroed. The model
	// returns the most recently Put object (LIFO), which maximises reuse and therefore exposes
	// double-Put / use-after-Put defects; the pool is emptied at the start of every path.
	externals["(*sync.Pool).Get"] = func(fr *frame, args []value) value {
		p := args[0].(*value)
		items := poolItems[p]
		if len(items) == 0 {
			// an empty pool calls New when it is set (the last field of sync.Pool), else returns nil
			if st, ok := (*p).(structure); ok && len(st) > 0 {
				switch nf := st[len(st)-1].(type) {
				case *closure:
					if nf != nil {
						return call(fr.i, fr, token.NoPos, nf, nil)
					}
				case *ssa.Function:
					if nf != nil {
						return call(fr.i, fr, token.NoPos, nf, nil)
					}
				}
			}
			return iface{}
		}
		it := items[len(items)-1]
		poolItems[p] = items[:len(items)-1]
		if explorer != nil && explorer.stubsUsed != nil {
			explorer.stubsUsed["sync.Pool (LIFO model: Get returns the most recently Put object, else nil)"] = true
		}
		return it
	}
	externals["(*sync.Pool).Put"] = func(fr *frame, args []value) value {
		p := args[0].(*value)
		poolItems[p] = append(poolItems[p], args[1])
		return nil
	}
	externals["(*sync.Mutex).Lock"] = func(fr *frame, args []value) value { return nil }
	externals["(*sync.Mutex).Unlock"] = func(fr *frame, args []value) value { return nil }
	externals["(*sync.RWMutex).Lock"] = func(fr *frame, args []value) value { return nil }
	externals["(*sync.RWMutex).Unlock"] = func(fr *frame, args []value) value { return nil }
	externals["(*sync.RWMutex).RLock"] = func(fr *frame, args []value) value { return nil }
	externals["(*sync.RWMutex).RUnlock"] = func(fr *frame, args []value) value { return nil }
	externals["(*sync.Once).Do"] = func(fr *frame, args []value) value {
		st := (*args[0].(*value)).(structure)
		// field 0: done (atomic.Uint32 struct or uint32 depending on version); keep own flag map
		if onceDone[args[0].(*value)] {
			return nil
		}
		onceDone[args[0].(*value)] = true
		_ = st
		call(fr.i, fr, token.NoPos, args[1], nil)
		return nil
	}
	externals["runtime.Stack"] = func(fr *frame, args []value) value { return 0 }
	externals["runtime/debug.Stack"] = func(fr *frame, args []value) value { return []value{} }
	externals["runtime.KeepAlive"] = func(fr *frame, args []value) value { return nil }
	externals["runtime.SetFinalizer"] = func(fr *frame, args []value) value { return nil }
}

var onceDone = map[*value]bool{}
var poolItems = map[*value][]value{}

func init() {
	// sync/atomic on the sequential interpreter: plain loads and stores
	for _, ty := range []string{"Int32", "Int64", "Uint32", "Uint64", "Uintptr"} {
		ty := ty
		externals["sync/atomic.Add"+ty] = func(fr *frame, args []value) value {
			p := args[0].(*value)
			*p = binopC(token.ADD, nil, *p, args[1])
			return *p
		}
		externals["sync/atomic.Load"+ty] = func(fr *frame, args []value) value { return *args[0].(*value) }
		externals["sync/atomic.Store"+ty] = func(fr *frame, args []value) value {
			*args[0].(*value) = args[1]
			return nil
		}
		externals["sync/atomic.Swap"+ty] = func(fr *frame, args []value) value {
			p := args[0].(*value)
			old := *p
			*p = args[1]
			return old
		}
		externals["sync/atomic.CompareAndSwap"+ty] = func(fr *frame, args []value) value {
			p := args[0].(*value)
			if *p == args[1] {
				*p = args[2]
				return true
			}
			return false
		}
	}
}

func init() {
	// utils.go: zero-copy string -> []byte through reflect headers; modelled as a fresh copy (a
	// write through the alias would be missed; the result is documented read-only).
	externals["github.com/yuin/gopher-lua.unsafeFastStringToReadOnlyBytes"] = func(fr *frame, args []value) value {
		return []value(append(symstr{}, toSymstr(args[0])...))
	}
	// alloc.go newAllocator builds its float page through reflect.SliceHeader; the allocator is
	// replaced by plain boxing (LNumber2I above), so construction is a no-op object.
	externals["github.com/yuin/gopher-lua.newAllocator"] = func(fr *frame, args []value) value {
		cell := zero(mustDeref(fr.fn.Signature.Results().At(0).Type()))
		return &cell
	}
}

func init() {
	// os.Stat: documented-contract stub "the file does not exist" (the checks never create files);
	// the message is the one *PathError renders natively.
	externals["os.Stat"] = func(fr *frame, args []value) value {
		var msg value
		switch x := args[0].(type) {
		case string:
			msg = "stat " + x + ": no such file or directory"
		case symstr:
			m := append(symstr{}, toSymstr("stat ")...)
			m = append(m, x...)
			msg = normStr(append(m, toSymstr(": no such file or directory")...))
		default:
			msg = "stat <symbolic>: no such file or directory"
		}
		errorsPkg := fr.i.prog.ImportedPackage("errors")
		e := call(fr.i, fr, token.NoPos, errorsPkg.Func("New"), []value{msg})
		if explorer != nil && explorer.stubsUsed != nil {
			explorer.stubsUsed["os.Stat (always: no such file)"] = true
		}
		return tuple{iface{}, e}
	}
}


// formatVerbs lists the verb letter consumed by each successive argument of a format string.
func formatVerbs(format string) []byte {
	var out []byte
	for i := 0; i < len(format); i++ {
		if format[i] != '%' {
			continue
		}
		i++
		for i < len(format) && (format[i] == '+' || format[i] == '-' || format[i] == '#' || format[i] == ' ' || format[i] == '0' || format[i] == '.' || (format[i] >= '1' && format[i] <= '9')) {
			i++
		}
		if i < len(format) && format[i] != '%' {
			out = append(out, format[i])
		}
	}
	return out
}

// UseRealFmt removes the fmt models so that the library's own source is interpreted (experiment).
func UseRealFmt() {
	for _, n := range []string{"fmt.Sprintf", "fmt.Sprint", "fmt.Errorf"} {
		delete(externals, n)
	}
}

func hasFormatter(args []value) bool {
	for _, a := range args {
		ia, ok := a.(iface)
		if !ok || ia.t == nil {
			continue
		}
		ms := types.NewMethodSet(ia.t)
		for i := 0; i < ms.Len(); i++ {
			if ms.At(i).Obj().Name() == "Format" {
				if sig, ok := ms.At(i).Type().(*types.Signature); ok && sig.Params().Len() == 2 {
					return true
				}
			}
		}
	}
	return false
}
