package interp

// Path-wise symbolic exploration by deterministic re-execution.

import (
	"fmt"
	"go/token"
	"os"
	"runtime"
	"sort"
	"strings"
	"time"

	"golang.org/x/tools/go/ssa"
)

// sym is a symbolic scalar: a term of sort Bool, BV8..64 or Float64.
type sym struct{ t *term }

func isSym(v value) bool { _, ok := v.(sym); return ok }

// symv wraps a term as an interpreter value, lowering constants to concrete Go values of the
// requested kind when possible is NOT done here: callers keep terms symbolic; constants only
// arise from simplification and are lowered by lower().
type engineAbort struct{ msg string }
type pathEnd struct{ why string }

// InputVal is one entry of the replay vector.
type InputVal struct {
	Kind string `json:"kind"` // int, i64, u32, i32, byte, bool, float, choice
	Name string `json:"name"`
	Bits uint64 `json:"bits"`
	Text string `json:"text,omitempty"` // human-readable rendering
}

type Violation struct {
	Harness   string     `json:"harness"`
	Label     string     `json:"label"`
	Kind      string     `json:"kind"` // assert | panic
	Detail    string     `json:"detail,omitempty"`
	Decisions []int64    `json:"decisions"`
	Inputs    []InputVal `json:"inputs"`
	UF        bool       `json:"uf,omitempty"` // the violated condition contains an uninterpreted application
}

type PathResult struct {
	Harness     string         `json:"harness"`
	Prefix      []int64        `json:"prefix"`
	Decisions   []int64        `json:"decisions"`
	NewWork     [][]int64      `json:"new_work,omitempty"`
	Status      string         `json:"status"` // ok | assume | abort
	AbortMsg    string         `json:"abort_msg,omitempty"`
	Violations  []Violation    `json:"violations,omitempty"`
	Reach       map[string]int `json:"reach,omitempty"`
	Instrs      int64          `json:"instrs"`
	Queries     int            `json:"queries"`
	ModelEvals  int            `json:"model_evals"`
	SolverS     float64        `json:"solver_s"`
	WallS       float64        `json:"wall_s"`
	SymDecs     int            `json:"sym_decisions"`
	SymInputs   int            `json:"sym_inputs"`
	SymAsserts  int            `json:"sym_asserts"`
	Sample      []InputVal     `json:"sample,omitempty"`
	Funcs       []string       `json:"funcs,omitempty"`
	Stubs       []string       `json:"stubs,omitempty"`
	Sat         int            `json:"sat"`
	Unsat       int            `json:"unsat"`
	Unknown     int            `json:"unknown"`
	Fallbacks   int            `json:"fallbacks"`
	Notes       []string       `json:"notes,omitempty"`
}

type inputRec struct {
	kind string
	name string
	v    *term // variable term; nil for choice
	bits uint64
}

type Explorer struct {
	ufGuards []*term // conditions under which uninterpreted applications of this path have an exact definition
	I       *Interp
	solver  *solverProc
	em      *emitter
	prefix  []int64
	pos     int
	decs    []int64
	newWork [][]int64
	pc      []*term
	vars    []string
	vsorts  []ssort
	model   assignment
	modelOK bool
	memo    map[int]uint64
	inputs  []inputRec
	fresh   int
	res     *PathResult
	// configuration
	Tier        int
	Params      map[string]int
	MaxInstrs   int64
	MaxDecs     int
	startInstrs int64
	pathsRun    int
	funcsSeen   map[*ssa.Function]bool
	stubsUsed   map[string]bool
	WantSample  bool
}

var explorer *Explorer

func NewExplorer(I *Interp) *Explorer {
	e := &Explorer{I: I, Params: map[string]int{}, MaxInstrs: 60_000_000, MaxDecs: 20000}
	return e
}

func (e *Explorer) Close() {
	if e.solver != nil {
		e.solver.close()
		e.solver = nil
	}
}

func (e *Explorer) declare(name string, so ssort) *term {
	e.vars = append(e.vars, name)
	e.vsorts = append(e.vsorts, so)
	e.solver.send(fmt.Sprintf("(declare-const %s %s)", name, so.smt()))
	e.model[name] = 0
	e.memo = map[int]uint64{}
	return mkVar(name, so)
}

func (e *Explorer) freshVar(kind, name string, so ssort) *term {
	clean := strings.Map(func(r rune) rune {
		if r >= 'a' && r <= 'z' || r >= 'A' && r <= 'Z' || r >= '0' && r <= '9' || r == '_' {
			return r
		}
		return '_'
	}, name)
	v := e.declare(fmt.Sprintf("%s_%d", clean, e.fresh), so)
	e.fresh++
	e.inputs = append(e.inputs, inputRec{kind: kind, name: name, v: v})
	return v
}

func (e *Explorer) assert(c *term) {
	if c.isTrue() {
		return
	}
	e.pc = append(e.pc, c)
	e.solver.send("(assert " + e.em.ref(c) + ")")
}

func (e *Explorer) evalModel(c *term) (uint64, bool) {
	if !e.modelOK {
		return 0, false
	}
	return c.eval(e.model, e.memo)
}

// fetchModel reads the model from the solver (which must be in a sat state with its scope open).
func (e *Explorer) fetchModel() {
	m, ok := e.solver.getValues(e.vars, e.vsorts)
	if !ok {
		e.solver.popInner()
		panic(engineAbort{"cannot read model: " + trunc(LastSolverNote, 300)})
	}
	e.model = m
	e.modelOK = true
	e.memo = map[int]uint64{}
}

// installModel adopts a model reported by a one-shot fallback solver.
func (e *Explorer) installModel(m assignment) {
	if m == nil {
		m = assignment{}
	}
	e.model = m
	e.modelOK = true
	e.memo = map[int]uint64{}
}

// ensureModel makes e.model a model of the current path condition.
func (e *Explorer) ensureModel() {
	if e.modelOK {
		return
	}
	e.solver.wantNames, e.solver.wantSorts = e.vars, e.vsorts
	r := e.solver.checkSat(nil, true)
	e.solver.wantNames = nil
	if r == "sat" && e.solver.lastFromFallback {
		e.solver.lastFromFallback = false
		if e.solver.fbModel != nil || len(e.vars) == 0 {
			e.installModel(e.solver.fbModel)
			return
		}
		panic(engineAbort{"primary solver gave up on the path condition (fallback says sat, no model available)"})
	}
	switch r {
	case "sat":
		e.fetchModel()
		e.solver.popInner()
	case "unsat":
		panic(engineAbort{"path condition of a scheduled prefix is unsat (non-deterministic re-execution?)"})
	default:
		panic(engineAbort{"solver unknown on path condition"})
	}
}

// checkWith asks whether pc ∧ c is satisfiable; if sat and wantModel, the model is installed.
func (e *Explorer) checkWith(c *term, wantModel bool) string {
	ref := e.em.ref(c) // definitions are emitted in the path scope, before the inner push
	if wantModel {
		e.solver.wantNames, e.solver.wantSorts = e.vars, e.vsorts
	}
	r := e.solver.checkSat([]string{ref}, wantModel)
	e.solver.wantNames = nil
	if r == "sat" && wantModel {
		// checkSat returns "sat" from a fallback solver without an open scope: detect by probing
		if e.solver.lastFromFallback {
			e.solver.lastFromFallback = false
			if e.solver.fbModel != nil || len(e.vars) == 0 {
				e.installModel(e.solver.fbModel)
				return r
			}
			e.modelOK = false
			return r
		}
		e.fetchModel()
		e.solver.popInner()
	}
	return r
}

func (e *Explorer) budget() {
	checkBudget()
	if len(e.decs) > e.MaxDecs {
		panic(engineAbort{fmt.Sprintf("BOUND-EXCEEDED: more than %d decisions on one path", e.MaxDecs)})
	}
}

// decide returns the direction taken for symbolic condition c on this run, scheduling the other
// direction when it is feasible.
func (e *Explorer) decide(c *term) bool {
	if c.isConst() {
		return c.bits == 1
	}
	e.res.SymDecs++
	e.budget()
	if e.pos < len(e.prefix) {
		d := e.prefix[e.pos] == 1
		e.pos++
		e.decs = append(e.decs, e.prefix[e.pos-1])
		if e.modelOK {
			if v, ok := e.evalModel(c); !ok || (v == 1) != d {
				e.modelOK = false
			}
		}
		if d {
			e.assert(c)
		} else {
			e.assert(tNot(c))
		}
		return d
	}
	e.pos++
	var d bool
	if !e.modelOK && !c.hasUF {
		e.ensureModel()
	}
	if v, ok := e.evalModel(c); ok {
		Stats.ModelEvals++
		d = v == 1
		other := c
		if d {
			other = tNot(c)
		}
		switch e.checkWith(other, false) {
		case "sat":
			e.schedule(b2i(!d))
		case "unsat":
		default:
			e.note("solver unknown on branch side; side not explored: INCONCLUSIVE")
			e.res.Status = "abort"
			e.res.AbortMsg = "solver unknown on a branch side"
		}
	} else {
		rt := e.checkWith(c, true)
		if rt == "unknown" {
			panic(engineAbort{"solver unknown on branch condition"})
		}
		if rt == "sat" {
			d = true
			rf := e.checkWith(tNot(c), false)
			if rf == "sat" {
				e.schedule(0)
			} else if rf != "unsat" {
				panic(engineAbort{"solver unknown on branch condition"})
			}
		} else {
			d = false
			e.modelOK = false
		}
	}
	e.decs = append(e.decs, b2i(d))
	if d {
		e.assert(c)
	} else {
		e.assert(tNot(c))
	}
	return d
}

func b2i(b bool) int64 {
	if b {
		return 1
	}
	return 0
}

func (e *Explorer) schedule(v int64) {
	alt := make([]int64, len(e.decs)+1)
	copy(alt, e.decs)
	alt[len(e.decs)] = v
	e.newWork = append(e.newWork, alt)
}

func (e *Explorer) note(s string) {
	if len(e.res.Notes) < 20 {
		e.res.Notes = append(e.res.Notes, s)
	}
}

// choose implements VChoice(n): an n-way fork that involves no solver.
func (e *Explorer) choose(n int) int {
	if n <= 0 {
		panic(pathEnd{"empty choice"})
	}
	e.budget()
	var v int64
	if e.pos < len(e.prefix) {
		v = e.prefix[e.pos]
	} else {
		for k := n - 1; k >= 1; k-- {
			e.schedule(int64(k))
		}
	}
	e.pos++
	e.decs = append(e.decs, v)
	e.inputs = append(e.inputs, inputRec{kind: "choice", name: fmt.Sprintf("choice%d", n), bits: uint64(v)})
	return int(v)
}

// concretize returns a concrete value for t, forking over all feasible values. The candidate
// value comes from the current model and is recorded in the decision vector, so re-executions
// try the same candidates in the same order.
func (e *Explorer) concretize(t *term) uint64 {
	if t.sort == sF64 {
		panic(engineAbort{"concretize float"})
	}
	for {
		if t.isConst() {
			return t.bits
		}
		e.budget()
		var cand uint64
		if e.pos < len(e.prefix) {
			cand = uint64(e.prefix[e.pos])
		} else {
			e.ensureModel()
			v, ok := e.evalModel(t)
			if !ok {
				// uninterpreted function inside: ask the solver for the value of the term itself
				panic(engineAbort{"cannot concretise a term containing an uninterpreted function"})
			}
			cand = v
		}
		e.pos++
		e.decs = append(e.decs, int64(cand))
		if e.decide(tEq(t, mkConst(t.sort, cand))) {
			return cand
		}
	}
}

func (e *Explorer) modelInputs() []InputVal {
	out := make([]InputVal, len(e.inputs))
	for i, in := range e.inputs {
		iv := InputVal{Kind: in.kind, Name: in.name}
		if in.v != nil {
			iv.Bits = e.model[in.v.name]
			iv.Text = renderBits(in.v.sort, in.kind, iv.Bits)
		} else {
			iv.Bits = in.bits
			iv.Text = fmt.Sprint(in.bits)
		}
		out[i] = iv
	}
	return out
}

func (e *Explorer) violation(kind, label, detail string) {
	v := Violation{Harness: e.res.Harness, Label: label, Kind: kind, Detail: detail,
		Decisions: append([]int64{}, e.decs...), Inputs: e.modelInputs()}
	e.res.Violations = append(e.res.Violations, v)
}

// RunPath executes one path of harness fn following prefix.
func (e *Explorer) RunPath(fn *ssa.Function, harness string, prefix []int64) (res *PathResult) {
	explorer = e
	t0 := time.Now()
	if e.solver == nil || e.pathsRun%1500 == 1499 {
		if e.solver != nil {
			func() {
				defer func() { recover() }()
				e.solver.close()
			}()
		}
		e.solver = startSolver(PrimarySolver)
	}
	e.pathsRun++
	if len(tt.m) > 300000 {
		resetTerms()
	}
	s0 := Stats
	res = &PathResult{Harness: harness, Prefix: prefix, Status: "ok", Reach: map[string]int{}}
	e.res = res
	e.prefix, e.pos, e.decs, e.newWork, e.pc = prefix, 0, nil, nil, nil
	e.vars, e.vsorts, e.model, e.modelOK, e.memo = nil, nil, assignment{}, true, map[int]uint64{}
	e.ufGuards = nil
	e.inputs, e.fresh = nil, 0
	e.funcsSeen = map[*ssa.Function]bool{}
	e.stubsUsed = map[string]bool{}
	e.solver.log = e.solver.log[:0]
	e.solver.tainted = false
	e.em = &emitter{defined: map[int]bool{}, ufs: map[string]bool{}, out: e.solver.send}
	e.solver.send("(push 1)")
	e.startInstrs = InstrCount
	poolItems = map[*value][]value{}
	pathStart = time.Now()
	callDepth = 0
	e.I.restoreGlobals()
	func() {
		defer func() {
			if r := recover(); r != nil {
				switch r := r.(type) {
				case engineAbort:
					res.Status = "abort"
					res.AbortMsg = r.msg
				case pathEnd:
					if res.Status == "ok" {
						res.Status = "assume"
					}
				case targetPanic:
					func() {
						defer func() {
							if r2 := recover(); r2 != nil {
								res.Status = "abort"
								res.AbortMsg = fmt.Sprint("while reporting panic: ", r2)
							}
						}()
						if !e.modelOK {
							e.ensureModel()
						}
						e.violation("panic", "uncaught panic", trunc(panicString(r.v), 300))
					}()
				case runtime.Error:
					msg := r.Error()
					if strings.Contains(msg, "interp.") || strings.Contains(msg, "nil map") && false {
						res.Status = "abort"
						res.AbortMsg = "interpreter: " + msg + " trail: " + strings.Join(CallTrail, " > ")
					} else {
						func() {
							defer func() {
								if r2 := recover(); r2 != nil {
									res.Status = "abort"
									res.AbortMsg = fmt.Sprint("while reporting panic: ", r2)
								}
							}()
							if !e.modelOK {
								e.ensureModel()
							}
							e.violation("panic", "uncaught panic", trunc(msg, 300))
						}()
					}
				default:
					res.Status = "abort"
					res.AbortMsg = trunc(fmt.Sprint("interpreter panic: ", r, " trail: ", strings.Join(CallTrail, " > ")), 600)
				}
			}
		}()
		call(e.I.i, nil, token.NoPos, fn, nil)
		if e.pos < len(e.prefix) {
			panic(engineAbort{"re-execution consumed fewer decisions than its prefix (non-determinism)"})
		}
	}()
	if res.Status == "ok" && e.WantSample {
		func() {
			defer func() { recover() }()
			e.ensureModel()
			res.Sample = e.modelInputs()
		}()
	}
	func() {
		defer func() {
			if r := recover(); r != nil { // solver died
				e.solver = nil
			}
		}()
		e.solver.raw("(pop 1)")
		e.solver.in.Flush()
	}()
	if res.Status == "abort" && e.solver != nil {
		// after an engine-side abort the solver's scope stack may be unbalanced: start afresh
		func() {
			defer func() { recover() }()
			e.solver.cmd.Process.Kill()
			e.solver.cmd.Wait()
		}()
		e.solver = nil
	}
	res.Decisions = e.decs
	res.SymInputs = len(e.vars)
	res.NewWork = e.newWork
	res.Instrs = InstrCount - e.startInstrs
	res.Queries = Stats.Queries - s0.Queries
	res.ModelEvals = Stats.ModelEvals - s0.ModelEvals
	res.SolverS = Stats.TimeS - s0.TimeS
	res.Sat, res.Unsat, res.Unknown, res.Fallbacks = Stats.Sat-s0.Sat, Stats.Unsat-s0.Unsat, Stats.Unknown-s0.Unknown, Stats.Fallbacks-s0.Fallbacks
	res.WallS = time.Since(t0).Seconds()
	for f := range e.funcsSeen {
		res.Funcs = append(res.Funcs, f.String())
	}
	sort.Strings(res.Funcs)
	for s := range e.stubsUsed {
		res.Stubs = append(res.Stubs, s)
	}
	sort.Strings(res.Stubs)
	return res
}

func trunc(s string, n int) string {
	if len(s) > n {
		return s[:n] + "…"
	}
	return s
}

func panicString(v value) (s string) {
	defer func() {
		if r := recover(); r != nil {
			s = fmt.Sprintf("<%T>", v)
		}
	}()
	if i, ok := v.(iface); ok {
		if str, ok := i.v.(string); ok {
			return str
		}
		if i.t != nil {
			return fmt.Sprintf("(%s) %s", i.t, toString(i.v))
		}
	}
	return toString(v)
}

var CallTrail []string

var _ = os.Stderr
