// Copyright 2013 The Go Authors. All rights reserved.
// Use of this source code is governed by a BSD-style
// license that can be found in the LICENSE file.

package interp

import (
	"bytes"
	"fmt"
	"go/constant"
	"go/token"
	"go/types"
	"os"
	"strings"
	"unsafe"

	"golang.org/x/tools/go/ssa"
)

// If the target program panics, the interpreter panics with this type.
type targetPanic struct {
	v value
}

func (p targetPanic) String() string {
	return toString(p.v)
}

// If the target program calls exit, the interpreter panics with this type.
type exitPanic int

// constValue returns the value of the constant with the
// dynamic type tag appropriate for c.Type().
func constValue(c *ssa.Const) value {
	if c.Value == nil {
		return zero(c.Type()) // typed zero
	}
	// c is not a type parameter so it's underlying type is basic.

	if t, ok := c.Type().Underlying().(*types.Basic); ok {
		// TODO(adonovan): eliminate untyped constants from SSA form.
		switch t.Kind() {
		case types.Bool, types.UntypedBool:
			return constant.BoolVal(c.Value)
		case types.Int, types.UntypedInt:
			// Assume sizeof(int) is same on host and target.
			return int(c.Int64())
		case types.Int8:
			return int8(c.Int64())
		case types.Int16:
			return int16(c.Int64())
		case types.Int32, types.UntypedRune:
			return int32(c.Int64())
		case types.Int64:
			return c.Int64()
		case types.Uint:
			// Assume sizeof(uint) is same on host and target.
			return uint(c.Uint64())
		case types.Uint8:
			return uint8(c.Uint64())
		case types.Uint16:
			return uint16(c.Uint64())
		case types.Uint32:
			return uint32(c.Uint64())
		case types.Uint64:
			return c.Uint64()
		case types.Uintptr:
			// Assume sizeof(uintptr) is same on host and target.
			return uintptr(c.Uint64())
		case types.Float32:
			return float32(c.Float64())
		case types.Float64, types.UntypedFloat:
			return c.Float64()
		case types.Complex64:
			return complex64(c.Complex128())
		case types.Complex128, types.UntypedComplex:
			return c.Complex128()
		case types.String, types.UntypedString:
			if c.Value.Kind() == constant.String {
				return constant.StringVal(c.Value)
			}
			return string(rune(c.Int64()))
		}
	}

	panic(fmt.Sprintf("constValue: %s", c))
}

// fitsInt returns true if x fits in type int according to sizes.
func fitsInt(x int64, sizes types.Sizes) bool {
	intSize := sizes.Sizeof(types.Typ[types.Int])
	if intSize < sizes.Sizeof(types.Typ[types.Int64]) {
		maxInt := int64(1)<<((intSize*8)-1) - 1
		minInt := -int64(1) << ((intSize * 8) - 1)
		return minInt <= x && x <= maxInt
	}
	return true
}

// asInt64 converts x, which must be an integer, to an int64.
//
// Callers that need a value directly usable as an int should combine this with fitsInt().
func asInt64(x value) int64 {
	switch x := x.(type) {
	case int:
		return int64(x)
	case int8:
		return int64(x)
	case int16:
		return int64(x)
	case int32:
		return int64(x)
	case int64:
		return x
	case uint:
		return int64(x)
	case uint8:
		return int64(x)
	case uint16:
		return int64(x)
	case uint32:
		return int64(x)
	case uint64:
		return int64(x)
	case uintptr:
		return int64(x)
	}
	panic(fmt.Sprintf("cannot convert %T to int64", x))
}

// asUint64 converts x, which must be an unsigned integer, to a uint64
// suitable for use as a bitwise shift count.
func asUint64(x value) uint64 {
	switch x := x.(type) {
	case uint:
		return uint64(x)
	case uint8:
		return uint64(x)
	case uint16:
		return uint64(x)
	case uint32:
		return uint64(x)
	case uint64:
		return x
	case uintptr:
		return uint64(x)
	}
	panic(fmt.Sprintf("cannot convert %T to uint64", x))
}

// asUnsigned returns the value of x, which must be an integer type, as its equivalent unsigned type,
// and returns true if x is non-negative.
func asUnsigned(x value) (value, bool) {
	switch x := x.(type) {
	case int:
		return uint(x), x >= 0
	case int8:
		return uint8(x), x >= 0
	case int16:
		return uint16(x), x >= 0
	case int32:
		return uint32(x), x >= 0
	case int64:
		return uint64(x), x >= 0
	case uint, uint8, uint32, uint64, uintptr:
		return x, true
	}
	panic(fmt.Sprintf("cannot convert %T to unsigned", x))
}

// zero returns a new "zero" value of the specified type.
func zero(t types.Type) value {
	switch t := t.(type) {
	case *types.Basic:
		if t.Kind() == types.UntypedNil {
			panic("untyped nil has no zero value")
		}
		if t.Info()&types.IsUntyped != 0 {
			// TODO(adonovan): make it an invariant that
			// this is unreachable.  Currently some
			// constants have 'untyped' types when they
			// should be defaulted by the typechecker.
			t = types.Default(t).(*types.Basic)
		}
		switch t.Kind() {
		case types.Bool:
			return false
		case types.Int:
			return int(0)
		case types.Int8:
			return int8(0)
		case types.Int16:
			return int16(0)
		case types.Int32:
			return int32(0)
		case types.Int64:
			return int64(0)
		case types.Uint:
			return uint(0)
		case types.Uint8:
			return uint8(0)
		case types.Uint16:
			return uint16(0)
		case types.Uint32:
			return uint32(0)
		case types.Uint64:
			return uint64(0)
		case types.Uintptr:
			return uintptr(0)
		case types.Float32:
			return float32(0)
		case types.Float64:
			return float64(0)
		case types.Complex64:
			return complex64(0)
		case types.Complex128:
			return complex128(0)
		case types.String:
			return ""
		case types.UnsafePointer:
			return unsafe.Pointer(nil)
		default:
			panic(fmt.Sprint("zero for unexpected type:", t))
		}
	case *types.Pointer:
		return (*value)(nil)
	case *types.Array:
		a := make(array, t.Len())
		for i := range a {
			a[i] = zero(t.Elem())
		}
		return a
	case *types.Named:
		return zero(t.Underlying())
	case *types.Alias:
		return zero(types.Unalias(t))
	case *types.Interface:
		return iface{} // nil type, methodset and value
	case *types.Slice:
		return []value(nil)
	case *types.Struct:
		s := make(structure, t.NumFields())
		for i := range s {
			s[i] = zero(t.Field(i).Type())
		}
		return s
	case *types.Tuple:
		if t.Len() == 1 {
			return zero(t.At(0).Type())
		}
		s := make(tuple, t.Len())
		for i := range s {
			s[i] = zero(t.At(i).Type())
		}
		return s
	case *types.Chan:
		return chan value(nil)
	case *types.Map:
		return (*omap)(nil)
	case *types.Signature:
		return (*ssa.Function)(nil)
	}
	panic(fmt.Sprint("zero: unexpected ", t))
}

// slice returns x[lo:hi:max].  Any of lo, hi and max may be nil.
func slice(x, lo, hi, max value) value {
	var Len, Cap int
	switch x := x.(type) {
	case string:
		Len = len(x)
	case symstr:
		Len = len(x)
	case []value:
		Len = len(x)
		Cap = cap(x)
	case *value: // *array
		a := (*x).(array)
		Len = len(a)
		Cap = cap(a)
	}

	l := int64(0)
	if lo != nil {
		l = asInt64(lo)
	}

	h := int64(Len)
	if hi != nil {
		h = asInt64(hi)
	}

	m := int64(Cap)
	if max != nil {
		m = asInt64(max)
	}

	switch x := x.(type) {
	case string:
		return x[l:h]
	case symstr:
		return normStr(x[l:h])
	case []value:
		return x[l:h:m]
	case *value: // *array
		a := (*x).(array)
		return []value(a)[l:h:m]
	}
	panic(fmt.Sprintf("slice: unexpected X type: %T", x))
}

// lookup returns x[idx] where x is a map.
func lookup(instr *ssa.Lookup, x, idx value) value {
	switch x := x.(type) { // map or string
	case *omap:
		v, ok := x.lookup(idx)
		if !ok {
			v = zero(instr.X.Type().Underlying().(*types.Map).Elem())
		}
		if instr.CommaOk {
			v = tuple{v, ok}
		}
		return v
	}
	panic(fmt.Sprintf("unexpected x type in Lookup: %T", x))
}

// binop implements all arithmetic and logical binary operators for
// numeric datatypes and strings.  Both operands must have identical
// dynamic type.
func binopC(op token.Token, t types.Type, x, y value) value {
	switch op {
	case token.ADD:
		switch x.(type) {
		case int:
			return x.(int) + y.(int)
		case int8:
			return x.(int8) + y.(int8)
		case int16:
			return x.(int16) + y.(int16)
		case int32:
			return x.(int32) + y.(int32)
		case int64:
			return x.(int64) + y.(int64)
		case uint:
			return x.(uint) + y.(uint)
		case uint8:
			return x.(uint8) + y.(uint8)
		case uint16:
			return x.(uint16) + y.(uint16)
		case uint32:
			return x.(uint32) + y.(uint32)
		case uint64:
			return x.(uint64) + y.(uint64)
		case uintptr:
			return x.(uintptr) + y.(uintptr)
		case float32:
			return x.(float32) + y.(float32)
		case float64:
			return x.(float64) + y.(float64)
		case complex64:
			return x.(complex64) + y.(complex64)
		case complex128:
			return x.(complex128) + y.(complex128)
		case string:
			return x.(string) + y.(string)
		}

	case token.SUB:
		switch x.(type) {
		case int:
			return x.(int) - y.(int)
		case int8:
			return x.(int8) - y.(int8)
		case int16:
			return x.(int16) - y.(int16)
		case int32:
			return x.(int32) - y.(int32)
		case int64:
			return x.(int64) - y.(int64)
		case uint:
			return x.(uint) - y.(uint)
		case uint8:
			return x.(uint8) - y.(uint8)
		case uint16:
			return x.(uint16) - y.(uint16)
		case uint32:
			return x.(uint32) - y.(uint32)
		case uint64:
			return x.(uint64) - y.(uint64)
		case uintptr:
			return x.(uintptr) - y.(uintptr)
		case float32:
			return x.(float32) - y.(float32)
		case float64:
			return x.(float64) - y.(float64)
		case complex64:
			return x.(complex64) - y.(complex64)
		case complex128:
			return x.(complex128) - y.(complex128)
		}

	case token.MUL:
		switch x.(type) {
		case int:
			return x.(int) * y.(int)
		case int8:
			return x.(int8) * y.(int8)
		case int16:
			return x.(int16) * y.(int16)
		case int32:
			return x.(int32) * y.(int32)
		case int64:
			return x.(int64) * y.(int64)
		case uint:
			return x.(uint) * y.(uint)
		case uint8:
			return x.(uint8) * y.(uint8)
		case uint16:
			return x.(uint16) * y.(uint16)
		case uint32:
			return x.(uint32) * y.(uint32)
		case uint64:
			return x.(uint64) * y.(uint64)
		case uintptr:
			return x.(uintptr) * y.(uintptr)
		case float32:
			return x.(float32) * y.(float32)
		case float64:
			return x.(float64) * y.(float64)
		case complex64:
			return x.(complex64) * y.(complex64)
		case complex128:
			return x.(complex128) * y.(complex128)
		}

	case token.QUO:
		switch x.(type) {
		case int:
			return x.(int) / y.(int)
		case int8:
			return x.(int8) / y.(int8)
		case int16:
			return x.(int16) / y.(int16)
		case int32:
			return x.(int32) / y.(int32)
		case int64:
			return x.(int64) / y.(int64)
		case uint:
			return x.(uint) / y.(uint)
		case uint8:
			return x.(uint8) / y.(uint8)
		case uint16:
			return x.(uint16) / y.(uint16)
		case uint32:
			return x.(uint32) / y.(uint32)
		case uint64:
			return x.(uint64) / y.(uint64)
		case uintptr:
			return x.(uintptr) / y.(uintptr)
		case float32:
			return x.(float32) / y.(float32)
		case float64:
			return x.(float64) / y.(float64)
		case complex64:
			return x.(complex64) / y.(complex64)
		case complex128:
			return x.(complex128) / y.(complex128)
		}

	case token.REM:
		switch x.(type) {
		case int:
			return x.(int) % y.(int)
		case int8:
			return x.(int8) % y.(int8)
		case int16:
			return x.(int16) % y.(int16)
		case int32:
			return x.(int32) % y.(int32)
		case int64:
			return x.(int64) % y.(int64)
		case uint:
			return x.(uint) % y.(uint)
		case uint8:
			return x.(uint8) % y.(uint8)
		case uint16:
			return x.(uint16) % y.(uint16)
		case uint32:
			return x.(uint32) % y.(uint32)
		case uint64:
			return x.(uint64) % y.(uint64)
		case uintptr:
			return x.(uintptr) % y.(uintptr)
		}

	case token.AND:
		switch x.(type) {
		case int:
			return x.(int) & y.(int)
		case int8:
			return x.(int8) & y.(int8)
		case int16:
			return x.(int16) & y.(int16)
		case int32:
			return x.(int32) & y.(int32)
		case int64:
			return x.(int64) & y.(int64)
		case uint:
			return x.(uint) & y.(uint)
		case uint8:
			return x.(uint8) & y.(uint8)
		case uint16:
			return x.(uint16) & y.(uint16)
		case uint32:
			return x.(uint32) & y.(uint32)
		case uint64:
			return x.(uint64) & y.(uint64)
		case uintptr:
			return x.(uintptr) & y.(uintptr)
		}

	case token.OR:
		switch x.(type) {
		case int:
			return x.(int) | y.(int)
		case int8:
			return x.(int8) | y.(int8)
		case int16:
			return x.(int16) | y.(int16)
		case int32:
			return x.(int32) | y.(int32)
		case int64:
			return x.(int64) | y.(int64)
		case uint:
			return x.(uint) | y.(uint)
		case uint8:
			return x.(uint8) | y.(uint8)
		case uint16:
			return x.(uint16) | y.(uint16)
		case uint32:
			return x.(uint32) | y.(uint32)
		case uint64:
			return x.(uint64) | y.(uint64)
		case uintptr:
			return x.(uintptr) | y.(uintptr)
		}

	case token.XOR:
		switch x.(type) {
		case int:
			return x.(int) ^ y.(int)
		case int8:
			return x.(int8) ^ y.(int8)
		case int16:
			return x.(int16) ^ y.(int16)
		case int32:
			return x.(int32) ^ y.(int32)
		case int64:
			return x.(int64) ^ y.(int64)
		case uint:
			return x.(uint) ^ y.(uint)
		case uint8:
			return x.(uint8) ^ y.(uint8)
		case uint16:
			return x.(uint16) ^ y.(uint16)
		case uint32:
			return x.(uint32) ^ y.(uint32)
		case uint64:
			return x.(uint64) ^ y.(uint64)
		case uintptr:
			return x.(uintptr) ^ y.(uintptr)
		}

	case token.AND_NOT:
		switch x.(type) {
		case int:
			return x.(int) &^ y.(int)
		case int8:
			return x.(int8) &^ y.(int8)
		case int16:
			return x.(int16) &^ y.(int16)
		case int32:
			return x.(int32) &^ y.(int32)
		case int64:
			return x.(int64) &^ y.(int64)
		case uint:
			return x.(uint) &^ y.(uint)
		case uint8:
			return x.(uint8) &^ y.(uint8)
		case uint16:
			return x.(uint16) &^ y.(uint16)
		case uint32:
			return x.(uint32) &^ y.(uint32)
		case uint64:
			return x.(uint64) &^ y.(uint64)
		case uintptr:
			return x.(uintptr) &^ y.(uintptr)
		}

	case token.SHL:
		u, ok := asUnsigned(y)
		if !ok {
			rtPanic("runtime error: negative shift amount")
		}
		y := asUint64(u)
		switch x.(type) {
		case int:
			return x.(int) << y
		case int8:
			return x.(int8) << y
		case int16:
			return x.(int16) << y
		case int32:
			return x.(int32) << y
		case int64:
			return x.(int64) << y
		case uint:
			return x.(uint) << y
		case uint8:
			return x.(uint8) << y
		case uint16:
			return x.(uint16) << y
		case uint32:
			return x.(uint32) << y
		case uint64:
			return x.(uint64) << y
		case uintptr:
			return x.(uintptr) << y
		}

	case token.SHR:
		u, ok := asUnsigned(y)
		if !ok {
			rtPanic("runtime error: negative shift amount")
		}
		y := asUint64(u)
		switch x.(type) {
		case int:
			return x.(int) >> y
		case int8:
			return x.(int8) >> y
		case int16:
			return x.(int16) >> y
		case int32:
			return x.(int32) >> y
		case int64:
			return x.(int64) >> y
		case uint:
			return x.(uint) >> y
		case uint8:
			return x.(uint8) >> y
		case uint16:
			return x.(uint16) >> y
		case uint32:
			return x.(uint32) >> y
		case uint64:
			return x.(uint64) >> y
		case uintptr:
			return x.(uintptr) >> y
		}

	case token.LSS:
		switch x.(type) {
		case int:
			return x.(int) < y.(int)
		case int8:
			return x.(int8) < y.(int8)
		case int16:
			return x.(int16) < y.(int16)
		case int32:
			return x.(int32) < y.(int32)
		case int64:
			return x.(int64) < y.(int64)
		case uint:
			return x.(uint) < y.(uint)
		case uint8:
			return x.(uint8) < y.(uint8)
		case uint16:
			return x.(uint16) < y.(uint16)
		case uint32:
			return x.(uint32) < y.(uint32)
		case uint64:
			return x.(uint64) < y.(uint64)
		case uintptr:
			return x.(uintptr) < y.(uintptr)
		case float32:
			return x.(float32) < y.(float32)
		case float64:
			return x.(float64) < y.(float64)
		case string:
			return x.(string) < y.(string)
		}

	case token.LEQ:
		switch x.(type) {
		case int:
			return x.(int) <= y.(int)
		case int8:
			return x.(int8) <= y.(int8)
		case int16:
			return x.(int16) <= y.(int16)
		case int32:
			return x.(int32) <= y.(int32)
		case int64:
			return x.(int64) <= y.(int64)
		case uint:
			return x.(uint) <= y.(uint)
		case uint8:
			return x.(uint8) <= y.(uint8)
		case uint16:
			return x.(uint16) <= y.(uint16)
		case uint32:
			return x.(uint32) <= y.(uint32)
		case uint64:
			return x.(uint64) <= y.(uint64)
		case uintptr:
			return x.(uintptr) <= y.(uintptr)
		case float32:
			return x.(float32) <= y.(float32)
		case float64:
			return x.(float64) <= y.(float64)
		case string:
			return x.(string) <= y.(string)
		}

	case token.EQL:
		return eqnil(t, x, y)

	case token.NEQ:
		return !eqnil(t, x, y)

	case token.GTR:
		switch x.(type) {
		case int:
			return x.(int) > y.(int)
		case int8:
			return x.(int8) > y.(int8)
		case int16:
			return x.(int16) > y.(int16)
		case int32:
			return x.(int32) > y.(int32)
		case int64:
			return x.(int64) > y.(int64)
		case uint:
			return x.(uint) > y.(uint)
		case uint8:
			return x.(uint8) > y.(uint8)
		case uint16:
			return x.(uint16) > y.(uint16)
		case uint32:
			return x.(uint32) > y.(uint32)
		case uint64:
			return x.(uint64) > y.(uint64)
		case uintptr:
			return x.(uintptr) > y.(uintptr)
		case float32:
			return x.(float32) > y.(float32)
		case float64:
			return x.(float64) > y.(float64)
		case string:
			return x.(string) > y.(string)
		}

	case token.GEQ:
		switch x.(type) {
		case int:
			return x.(int) >= y.(int)
		case int8:
			return x.(int8) >= y.(int8)
		case int16:
			return x.(int16) >= y.(int16)
		case int32:
			return x.(int32) >= y.(int32)
		case int64:
			return x.(int64) >= y.(int64)
		case uint:
			return x.(uint) >= y.(uint)
		case uint8:
			return x.(uint8) >= y.(uint8)
		case uint16:
			return x.(uint16) >= y.(uint16)
		case uint32:
			return x.(uint32) >= y.(uint32)
		case uint64:
			return x.(uint64) >= y.(uint64)
		case uintptr:
			return x.(uintptr) >= y.(uintptr)
		case float32:
			return x.(float32) >= y.(float32)
		case float64:
			return x.(float64) >= y.(float64)
		case string:
			return x.(string) >= y.(string)
		}
	}
	panic(fmt.Sprintf("invalid binary op: %T %s %T", x, op, y))
}

// eqnil returns the comparison x == y using the equivalence relation
// appropriate for type t.
// If t is a reference type, at most one of x or y may be a nil value
// of that type.
func eqnil(t types.Type, x, y value) bool {
	switch t.Underlying().(type) {
	case *types.Map, *types.Signature, *types.Slice:
		// Since these types don't support comparison,
		// one of the operands must be a literal nil.
		switch x := x.(type) {
		case *omap:
			return (x != nil) == (y.(*omap) != nil)
		case *ssa.Function:
			switch y := y.(type) {
			case *ssa.Function:
				return (x != nil) == (y != nil)
			case *closure:
				return true
			}
		case *closure:
			return (x != nil) == (y.(*ssa.Function) != nil)
		case []value:
			return (x != nil) == (y.([]value) != nil)
		}
		panic(fmt.Sprintf("eqnil(%s): illegal dynamic type: %T", t, x))
	}

	return equals(t, x, y)
}

func unopC(instr *ssa.UnOp, x value) value {
	switch instr.Op {
	case token.ARROW: // receive
		v, ok := <-x.(chan value)
		if !ok {
			v = zero(instr.X.Type().Underlying().(*types.Chan).Elem())
		}
		if instr.CommaOk {
			v = tuple{v, ok}
		}
		return v
	case token.SUB:
		switch x := x.(type) {
		case int:
			return -x
		case int8:
			return -x
		case int16:
			return -x
		case int32:
			return -x
		case int64:
			return -x
		case uint:
			return -x
		case uint8:
			return -x
		case uint16:
			return -x
		case uint32:
			return -x
		case uint64:
			return -x
		case uintptr:
			return -x
		case float32:
			return -x
		case float64:
			return -x
		case complex64:
			return -x
		case complex128:
			return -x
		}
	case token.MUL:
		return load(mustDeref(instr.X.Type()), x.(*value))
	case token.NOT:
		return !x.(bool)
	case token.XOR:
		switch x := x.(type) {
		case int:
			return ^x
		case int8:
			return ^x
		case int16:
			return ^x
		case int32:
			return ^x
		case int64:
			return ^x
		case uint:
			return ^x
		case uint8:
			return ^x
		case uint16:
			return ^x
		case uint32:
			return ^x
		case uint64:
			return ^x
		case uintptr:
			return ^x
		}
	}
	panic(fmt.Sprintf("invalid unary op %s %T", instr.Op, x))
}

// typeAssert checks whether dynamic type of itf is instr.AssertedType.
// It returns the extracted value on success, and panics on failure,
// unless instr.CommaOk, in which case it always returns a "value,ok" tuple.
func typeAssert(i *interpreter, instr *ssa.TypeAssert, itf iface) value {
	var v value
	err := ""
	if itf.t == nil {
		err = fmt.Sprintf("interface conversion: interface is nil, not %s", instr.AssertedType)

	} else if idst, ok := instr.AssertedType.Underlying().(*types.Interface); ok {
		v = itf
		err = checkInterface(i, idst, itf)

	} else if types.Identical(itf.t, instr.AssertedType) {
		v = itf.v // extract value

	} else {
		err = fmt.Sprintf("interface conversion: interface is %s, not %s", itf.t, instr.AssertedType)
	}
	// Note: if instr.Underlying==true ever becomes reachable from interp check that
	// types.Identical(itf.t.Underlying(), instr.AssertedType)

	if err != "" {
		if !instr.CommaOk {
			rtPanic(err)
		}
		return tuple{zero(instr.AssertedType), false}
	}
	if instr.CommaOk {
		return tuple{v, true}
	}
	return v
}

// This variable is no longer used but remains to prevent build breakage.
var CapturedOutput *bytes.Buffer

// callBuiltin interprets a call to builtin fn with arguments args,
// returning its result.
func callBuiltin(caller *frame, callpos token.Pos, fn *ssa.Builtin, args []value) value {
	switch fn.Name() {
	case "append":
		if len(args) == 1 {
			return args[0]
		}
		if ss, ok := args[1].(symstr); ok {
			return append(args[0].([]value), ss...)
		}
		if s, ok := args[1].(string); ok {
			// append([]byte, ...string) []byte
			arg0 := args[0].([]value)
			for i := 0; i < len(s); i++ {
				arg0 = append(arg0, s[i])
			}
			return arg0
		}
		// append([]T, ...[]T) []T — struct and array elements are values: copy them, or the appended element would
		// alias the source element (a later field store through &src[i] would show in the copy)
		dst := args[0].([]value)
		for _, v := range args[1].([]value) {
			dst = append(dst, copyVal(v))
		}
		return dst

	case "copy": // copy([]T, []T) int or copy([]byte, string) int
		src := args[1]
		if ss, ok := src.(symstr); ok {
			src = []value(ss)
		} else if _, ok := src.(string); ok {
			params := fn.Type().(*types.Signature).Params()
			src = conv(params.At(0).Type(), params.At(1).Type(), src)
		}
		dst := args[0].([]value)
		n := copy(dst, src.([]value))
		for i := 0; i < n; i++ {
			dst[i] = copyVal(dst[i]) // de-alias struct and array elements (see append)
		}
		return n

	case "close": // close(chan T)
		close(args[0].(chan value))
		return nil

	case "delete": // delete(map[K]value, K)
		args[0].(*omap).delete(args[1])
		return nil

	case "print", "println": // print(any, ...)
		ln := fn.Name() == "println"
		var buf bytes.Buffer
		for i, arg := range args {
			if i > 0 && ln {
				buf.WriteRune(' ')
			}
			buf.WriteString(toString(arg))
		}
		if ln {
			buf.WriteRune('\n')
		}
		os.Stderr.Write(buf.Bytes())
		return nil

	case "len":
		switch x := args[0].(type) {
		case string:
			return len(x)
		case symstr:
			return len(x)
		case array:
			return len(x)
		case *value:
			return len((*x).(array))
		case []value:
			return len(x)
		case *omap:
			return x.len()
		case chan value:
			return len(x)
		default:
			panic(fmt.Sprintf("len: illegal operand: %T", x))
		}

	case "cap":
		switch x := args[0].(type) {
		case array:
			return cap(x)
		case *value:
			return cap((*x).(array))
		case []value:
			return cap(x)
		case chan value:
			return cap(x)
		default:
			panic(fmt.Sprintf("cap: illegal operand: %T", x))
		}

	case "min":
		return foldLeft(min, args)
	case "max":
		return foldLeft(max, args)

	case "real":
		switch c := args[0].(type) {
		case complex64:
			return real(c)
		case complex128:
			return real(c)
		default:
			panic(fmt.Sprintf("real: illegal operand: %T", c))
		}

	case "imag":
		switch c := args[0].(type) {
		case complex64:
			return imag(c)
		case complex128:
			return imag(c)
		default:
			panic(fmt.Sprintf("imag: illegal operand: %T", c))
		}

	case "complex":
		switch f := args[0].(type) {
		case float32:
			return complex(f, args[1].(float32))
		case float64:
			return complex(f, args[1].(float64))
		default:
			panic(fmt.Sprintf("complex: illegal operand: %T", f))
		}

	case "panic":
		// ssa.Panic handles most cases; this is only for "go
		// panic" or "defer panic".
		panic(targetPanic{args[0]})

	case "recover":
		return doRecover(caller)

	case "ssa:wrapnilchk":
		recv := args[0]
		if recv.(*value) == nil {
			recvType := args[1]
			methodName := args[2]
			rtPanic(fmt.Sprintf("value method (%s).%s called using nil *%s pointer",
				recvType, methodName, recvType))
		}
		return recv

	case "ssa:deferstack":
		return &caller.defers
	}

	panic("unknown built-in: " + fn.Name())
}

func rangeIter(x value, t types.Type) iter {
	switch x := x.(type) {
	case *omap:
		it := &omapIter{m: x}
		if explorer != nil && explorer.Params["maporder"] > 0 && x.len() > 1 && x.len() <= explorer.Params["maporder"] {
			// unspecified iteration order: fork over the rotations of the live entries (entries inserted during
			// the iteration are not visited, which the specification allows)
			var live []int
			for i, e := range x.entries {
				if !e.deleted {
					live = append(live, i)
				}
			}
			r := explorer.choose(len(live))
			it.order = append(append([]int{}, live[r:]...), live[:r]...)
		}
		return it
	case symstr:
		return &symstrIter{s: x}
	case string:
		return &stringIter{Reader: strings.NewReader(x)}
	}
	panic(fmt.Sprintf("cannot range over %T", x))
}

// widen widens a basic typed value x to the widest type of its
// category, one of:
//
//	bool, int64, uint64, float64, complex128, string.
//
// This is inefficient but reduces the size of the cross-product of
// cases we have to consider.
func widen(x value) value {
	switch y := x.(type) {
	case bool, int64, uint64, float64, complex128, string, unsafe.Pointer:
		return x
	case int:
		return int64(y)
	case int8:
		return int64(y)
	case int16:
		return int64(y)
	case int32:
		return int64(y)
	case uint:
		return uint64(y)
	case uint8:
		return uint64(y)
	case uint16:
		return uint64(y)
	case uint32:
		return uint64(y)
	case uintptr:
		return uint64(y)
	case float32:
		return float64(y)
	case complex64:
		return complex128(y)
	}
	panic(fmt.Sprintf("cannot widen %T", x))
}

// conv converts the value x of type t_src to type t_dst and returns
// the result.
// Possible cases are described with the ssa.Convert operator.
func convC(t_dst, t_src types.Type, x value) value {
	ut_src := t_src.Underlying()
	ut_dst := t_dst.Underlying()

	// Destination type is not an "untyped" type.
	if b, ok := ut_dst.(*types.Basic); ok && b.Info()&types.IsUntyped != 0 {
		panic("oops: conversion to 'untyped' type: " + b.String())
	}

	// Nor is it an interface type.
	if _, ok := ut_dst.(*types.Interface); ok {
		if _, ok := ut_src.(*types.Interface); ok {
			panic("oops: Convert should be ChangeInterface")
		} else {
			panic("oops: Convert should be MakeInterface")
		}
	}

	// Remaining conversions:
	//    + untyped string/number/bool constant to a specific
	//      representation.
	//    + conversions between non-complex numeric types.
	//    + conversions between complex numeric types.
	//    + integer/[]byte/[]rune -> string.
	//    + string -> []byte/[]rune.
	//
	// All are treated the same: first we extract the value to the
	// widest representation (int64, uint64, float64, complex128,
	// or string), then we convert it to the desired type.

	switch ut_src := ut_src.(type) {
	case *types.Pointer:
		switch ut_dst := ut_dst.(type) {
		case *types.Basic:
			// *value to unsafe.Pointer?
			if ut_dst.Kind() == types.UnsafePointer {
				panic(engineAbort{"unsafe.Pointer conversion in target code is not modelled (bind a stub for the enclosing function): " + trail()})
			}
		}

	case *types.Slice:
		// []byte or []rune -> string
		switch ut_src.Elem().Underlying().(*types.Basic).Kind() {
		case types.Byte:
			x := x.([]value)
			b := make([]byte, 0, len(x))
			for i := range x {
				b = append(b, x[i].(byte))
			}
			return string(b)

		case types.Rune:
			x := x.([]value)
			r := make([]rune, 0, len(x))
			for i := range x {
				r = append(r, x[i].(rune))
			}
			return string(r)
		}

	case *types.Basic:
		x = widen(x)

		// integer -> string?
		if ut_src.Info()&types.IsInteger != 0 {
			if ut_dst, ok := ut_dst.(*types.Basic); ok && ut_dst.Kind() == types.String {
				return fmt.Sprintf("%c", x)
			}
		}

		// string -> []rune, []byte or string?
		if s, ok := x.(string); ok {
			switch ut_dst := ut_dst.(type) {
			case *types.Slice:
				var res []value
				switch ut_dst.Elem().Underlying().(*types.Basic).Kind() {
				case types.Rune:
					for _, r := range []rune(s) {
						res = append(res, r)
					}
					return res
				case types.Byte:
					for _, b := range []byte(s) {
						res = append(res, b)
					}
					return res
				}
			case *types.Basic:
				if ut_dst.Kind() == types.String {
					return x.(string)
				}
			}
			break // fail: no other conversions for string
		}

		// unsafe.Pointer -> *value
		if ut_src.Kind() == types.UnsafePointer {
			// TODO(adonovan): this is wrong and cannot
			// really be fixed with the current design.
			//
			// return (*value)(x.(unsafe.Pointer))
			// creates a new pointer of a different
			// type but the underlying interface value
			// knows its "true" type and so cannot be
			// meaningfully used through the new pointer.
			//
			// To make this work, the interpreter needs to
			// simulate the memory layout of a real
			// compiled implementation.
			//
			// To at least preserve type-safety, we'll
			// just return the zero value of the
			// destination type.
			return zero(t_dst)
		}

		// Conversions between complex numeric types?
		if ut_src.Info()&types.IsComplex != 0 {
			switch ut_dst.(*types.Basic).Kind() {
			case types.Complex64:
				return complex64(x.(complex128))
			case types.Complex128:
				return x.(complex128)
			}
			break // fail: no other conversions for complex
		}

		// Conversions between non-complex numeric types?
		if ut_src.Info()&types.IsNumeric != 0 {
			kind := ut_dst.(*types.Basic).Kind()
			switch x := x.(type) {
			case int64: // signed integer -> numeric?
				switch kind {
				case types.Int:
					return int(x)
				case types.Int8:
					return int8(x)
				case types.Int16:
					return int16(x)
				case types.Int32:
					return int32(x)
				case types.Int64:
					return int64(x)
				case types.Uint:
					return uint(x)
				case types.Uint8:
					return uint8(x)
				case types.Uint16:
					return uint16(x)
				case types.Uint32:
					return uint32(x)
				case types.Uint64:
					return uint64(x)
				case types.Uintptr:
					return uintptr(x)
				case types.Float32:
					return float32(x)
				case types.Float64:
					return float64(x)
				}

			case uint64: // unsigned integer -> numeric?
				switch kind {
				case types.Int:
					return int(x)
				case types.Int8:
					return int8(x)
				case types.Int16:
					return int16(x)
				case types.Int32:
					return int32(x)
				case types.Int64:
					return int64(x)
				case types.Uint:
					return uint(x)
				case types.Uint8:
					return uint8(x)
				case types.Uint16:
					return uint16(x)
				case types.Uint32:
					return uint32(x)
				case types.Uint64:
					return uint64(x)
				case types.Uintptr:
					return uintptr(x)
				case types.Float32:
					return float32(x)
				case types.Float64:
					return float64(x)
				}

			case float64: // floating point -> numeric?
				switch kind {
				case types.Int:
					return int(x)
				case types.Int8:
					return int8(x)
				case types.Int16:
					return int16(x)
				case types.Int32:
					return int32(x)
				case types.Int64:
					return int64(x)
				case types.Uint:
					return uint(x)
				case types.Uint8:
					return uint8(x)
				case types.Uint16:
					return uint16(x)
				case types.Uint32:
					return uint32(x)
				case types.Uint64:
					return uint64(x)
				case types.Uintptr:
					return uintptr(x)
				case types.Float32:
					return float32(x)
				case types.Float64:
					return float64(x)
				}
			}
		}
	}

	panic(fmt.Sprintf("unsupported conversion: %s  -> %s, dynamic type %T", t_src, t_dst, x))
}

// sliceToArrayPointer converts the value x of type slice to type t_dst
// a pointer to array and returns the result.
func sliceToArrayPointer(t_dst, t_src types.Type, x value) value {
	if _, ok := t_src.Underlying().(*types.Slice); ok {
		if ptr, ok := t_dst.Underlying().(*types.Pointer); ok {
			if arr, ok := ptr.Elem().Underlying().(*types.Array); ok {
				x := x.([]value)
				if arr.Len() > int64(len(x)) {
					panic("array length is greater than slice length")
				}
				if x == nil {
					return zero(t_dst)
				}
				v := value(array(x[:arr.Len()]))
				return &v
			}
		}
	}

	panic(fmt.Sprintf("unsupported conversion: %s  -> %s, dynamic type %T", t_src, t_dst, x))
}

// checkInterface checks that the method set of x implements the
// interface itype.
// On success it returns "", on failure, an error message.
func checkInterface(i *interpreter, itype *types.Interface, x iface) string {
	if meth, _ := types.MissingMethod(x.t, itype, true); meth != nil {
		return fmt.Sprintf("interface conversion: %v is not %v: missing method %s",
			x.t, itype, meth.Name())
	}
	return "" // ok
}

func foldLeft(op func(value, value) value, args []value) value {
	x := args[0]
	for _, arg := range args[1:] {
		x = op(x, arg)
	}
	return x
}

func min(x, y value) value {
	switch x := x.(type) {
	case float32:
		return fmin(x, y.(float32))
	case float64:
		return fmin(x, y.(float64))
	}

	// return (y < x) ? y : x
	if binop(token.LSS, nil, y, x).(bool) {
		return y
	}
	return x
}

func max(x, y value) value {
	switch x := x.(type) {
	case float32:
		return fmax(x, y.(float32))
	case float64:
		return fmax(x, y.(float64))
	}

	// return (y > x) ? y : x
	if binop(token.GTR, nil, y, x).(bool) {
		return y
	}
	return x
}

// copied from $GOROOT/src/runtime/minmax.go

type floaty interface{ ~float32 | ~float64 }

func fmin[F floaty](x, y F) F {
	if y != y || y < x {
		return y
	}
	if x != x || x < y || x != 0 {
		return x
	}
	// x and y are both ±0
	// if either is -0, return -0; else return +0
	return forbits(x, y)
}

func fmax[F floaty](x, y F) F {
	if y != y || y > x {
		return y
	}
	if x != x || x > y || x != 0 {
		return x
	}
	// x and y are both ±0
	// if both are -0, return -0; else return +0
	return fandbits(x, y)
}

func forbits[F floaty](x, y F) F {
	switch unsafe.Sizeof(x) {
	case 4:
		*(*uint32)(unsafe.Pointer(&x)) |= *(*uint32)(unsafe.Pointer(&y))
	case 8:
		*(*uint64)(unsafe.Pointer(&x)) |= *(*uint64)(unsafe.Pointer(&y))
	}
	return x
}

func fandbits[F floaty](x, y F) F {
	switch unsafe.Sizeof(x) {
	case 4:
		*(*uint32)(unsafe.Pointer(&x)) &= *(*uint32)(unsafe.Pointer(&y))
	case 8:
		*(*uint64)(unsafe.Pointer(&x)) &= *(*uint64)(unsafe.Pointer(&y))
	}
	return x
}
