package main

import (
	"fmt"
	"go/ast"
	"go/parser"
	"go/token"
	"os"
	"path/filepath"
	"sort"
	"strconv"
	"strings"
)

const modPath = "github.com/yuin/gopher-lua"

// subPkgs maps a harness sub-directory to (package name, directory inside the repository).
var subPkgs = map[string][2]string{
	"lua":   {"lua", ""},
	"pm":    {"pm", "pm"},
	"parse": {"parse", "parse"},
}

type Harness struct {
	Fn       string            `json:"fn"`
	Sub      string            `json:"sub"` // lua | pm | parse
	Props    []string          `json:"props"`
	Tier     string            `json:"tier"` // quick | thorough
	QParams  map[string]int    `json:"qparams,omitempty"`
	TParams  map[string]int    `json:"tparams,omitempty"`
	Bounds   string            `json:"bounds,omitempty"`
	Assumes  []string          `json:"assumes,omitempty"`
	NoNative bool              `json:"nonative,omitempty"`
	MaxPaths int               `json:"maxpaths,omitempty"`
	TMaxPaths int              `json:"tmaxpaths,omitempty"`
	Expect   string            `json:"expect,omitempty"` // "violation" for planted-failure twins
	File     string            `json:"file"`
	Extra    map[string]string `json:"-"`
}

type StubDecl struct {
	Target string
	Fn     string
	Sub    string
}

type HarnessSet struct {
	Dir       string
	Harnesses []*Harness
	Stubs     []StubDecl
	Files     map[string][]string // sub -> harness file paths
}

func parseKV(s string) map[string]string {
	// key=value pairs separated by spaces; values may be quoted
	out := map[string]string{}
	i := 0
	for i < len(s) {
		for i < len(s) && s[i] == ' ' {
			i++
		}
		j := i
		for j < len(s) && s[j] != '=' && s[j] != ' ' {
			j++
		}
		key := s[i:j]
		if key == "" {
			break
		}
		if j >= len(s) || s[j] == ' ' {
			out[key] = "true"
			i = j
			continue
		}
		j++
		var val string
		if j < len(s) && s[j] == '"' {
			k := j + 1
			for k < len(s) && s[k] != '"' {
				k++
			}
			val = s[j+1 : k]
			i = k + 1
		} else {
			k := j
			for k < len(s) && s[k] != ' ' {
				k++
			}
			val = s[j:k]
			i = k
		}
		out[key] = val
	}
	return out
}

func parseParams(s string) map[string]int {
	out := map[string]int{}
	for _, kv := range strings.Split(s, ",") {
		kv = strings.TrimSpace(kv)
		if kv == "" {
			continue
		}
		p := strings.SplitN(kv, ":", 2)
		if len(p) == 2 {
			n, _ := strconv.Atoi(p[1])
			out[p[0]] = n
		}
	}
	return out
}

// discover parses the harness sources for //verif:harness and //verif:stub directives.
func discover(dir string) (*HarnessSet, error) {
	hs := &HarnessSet{Dir: dir, Files: map[string][]string{}}
	for sub := range subPkgs {
		files, _ := filepath.Glob(filepath.Join(dir, sub, "*.go"))
		sort.Strings(files)
		for _, f := range files {
			hs.Files[sub] = append(hs.Files[sub], f)
			fset := token.NewFileSet()
			af, err := parser.ParseFile(fset, f, nil, parser.ParseComments)
			if err != nil {
				return nil, err
			}
			for _, d := range af.Decls {
				fd, ok := d.(*ast.FuncDecl)
				if !ok || fd.Doc == nil || fd.Recv != nil {
					continue
				}
				var h *Harness
				for _, c := range fd.Doc.List {
					txt := strings.TrimSpace(strings.TrimPrefix(c.Text, "//"))
					switch {
					case strings.HasPrefix(txt, "verif:harness"):
						kv := parseKV(strings.TrimSpace(strings.TrimPrefix(txt, "verif:harness")))
						if h == nil {
							h = &Harness{Fn: fd.Name.Name, Sub: sub, Tier: "quick", File: f, Extra: kv}
						}
						for k, v := range kv {
							switch k {
							case "prop":
								h.Props = strings.Split(v, ",")
							case "tier":
								h.Tier = v
							case "qparams":
								h.QParams = parseParams(v)
							case "tparams":
								h.TParams = parseParams(v)
							case "bounds":
								h.Bounds = v
							case "nonative":
								h.NoNative = true
							case "maxpaths":
								h.MaxPaths, _ = strconv.Atoi(v)
							case "tmaxpaths":
								h.TMaxPaths, _ = strconv.Atoi(v)
							case "expect":
								h.Expect = v
							}
						}
					case strings.HasPrefix(txt, "verif:assume"):
						if h != nil {
							h.Assumes = append(h.Assumes, strings.TrimSpace(strings.TrimPrefix(txt, "verif:assume")))
						}
					case strings.HasPrefix(txt, "verif:stub"):
						hs.Stubs = append(hs.Stubs, StubDecl{Target: strings.TrimSpace(strings.TrimPrefix(txt, "verif:stub")), Fn: fd.Name.Name, Sub: sub})
					}
				}
				if h != nil {
					hs.Harnesses = append(hs.Harnesses, h)
				}
			}
		}
	}
	return hs, nil
}

// overlay builds the virtual files placed into the repository's packages.
func (hs *HarnessSet) overlay(repo string, native bool) (map[string][]byte, error) {
	ov := map[string][]byte{}
	for sub, info := range subPkgs {
		if len(hs.Files[sub]) == 0 {
			continue
		}
		pkgDir := filepath.Join(repo, info[1])
		for _, f := range hs.Files[sub] {
			b, err := os.ReadFile(f)
			if err != nil {
				return nil, err
			}
			name := "zz_verif_" + filepath.Base(f)
			if strings.HasSuffix(name, "_test.go") {
				name = strings.TrimSuffix(name, "_test.go") + "_t.go"
			}
			ov[filepath.Join(pkgDir, name)] = b
		}
		tmpl := "v_decl.go.tmpl"
		if native {
			tmpl = "v_native.go.tmpl"
		}
		b, err := os.ReadFile(filepath.Join(hs.Dir, "vlib", tmpl))
		if err != nil {
			return nil, err
		}
		ov[filepath.Join(pkgDir, "zz_verif_v.go")] = []byte(strings.Replace(string(b), "package PKG", "package "+info[0], 1))
		if native {
			var sb strings.Builder
			fmt.Fprintf(&sb, "//go:build verif && verifnative\n\npackage %s\n\nimport \"testing\"\n\nfunc TestVerifReplay(t *testing.T) {\n\tvReplayMain(map[string]func(){\n", info[0])
			for _, h := range hs.Harnesses {
				if h.Sub == sub {
					fmt.Fprintf(&sb, "\t\t%q: %s,\n", h.Fn, h.Fn)
				}
			}
			sb.WriteString("\t})\n}\n")
			ov[filepath.Join(pkgDir, "zz_verif_replay_test.go")] = []byte(sb.String())
		}
	}
	return ov, nil
}

func (hs *HarnessSet) find(fn string) *Harness {
	for _, h := range hs.Harnesses {
		if h.Fn == fn {
			return h
		}
	}
	return nil
}

func (h *Harness) params(tier int) map[string]int {
	out := map[string]int{}
	for k, v := range h.QParams {
		out[k] = v
	}
	if tier > 0 {
		for k, v := range h.TParams {
			out[k] = v
		}
	}
	// VERIF_SEED selects which slice of a generated program family a generator harness explores
	if s, err := strconv.Atoi(os.Getenv("VERIF_SEED")); err == nil {
		out["seed"] = s
	}
	return out
}
