package main

import (
	"encoding/json"
	"fmt"
	"os"
	"os/exec"
	"path/filepath"
	"sort"
	"strconv"
	"strings"
	"time"

	"gosym/interp"
)

type report struct {
	Prop, Tier string
	tier       int
	Repo, Vdir string
	hs         *HarnessSet
	sel        []*Harness
	aggs       map[string]*harnessAgg
	funcs      map[string]bool
	stubs      map[string]bool
	LoadS      float64
	ExploreS   float64
	Workers    int
	t0         time.Time
	Solver     string
	NoReplay   bool
	NoEvidence bool
	Verbose    bool
}

type Finding struct {
	ID       string `json:"id"`
	Property string `json:"property"`
	Harness  string `json:"harness"`
	Label    string `json:"label"`
	What     string `json:"what"`
	Status   string `json:"status"` // open | fixed
	Commit   string `json:"commit,omitempty"`
}

type replayReq struct {
	ID      string            `json:"id"`
	Harness string            `json:"harness"`
	Inputs  []interp.InputVal `json:"inputs"`
	Tier    int               `json:"tier"`
	Params  map[string]int    `json:"params"`
}

type replayRes struct {
	ID     string   `json:"id"`
	Status string   `json:"status"`
	Events []string `json:"events"`
}

func labelMatch(pat, label string) bool {
	if strings.HasSuffix(pat, "*") {
		return strings.HasPrefix(label, strings.TrimSuffix(pat, "*"))
	}
	return pat == label
}

// nativeReplay runs the given replay vectors against a native build of the repository's working
// tree (harness files injected with -overlay; /repo itself is not written).
func nativeReplay(repo string, hs *HarnessSet, sub string, reqs []replayReq) (map[string]replayRes, string, error) {
	tmp, err := os.MkdirTemp("", "verif-replay-")
	if err != nil {
		return nil, "", err
	}
	defer os.RemoveAll(tmp)
	ov, err := hs.overlay(repo, true)
	if err != nil {
		return nil, "", err
	}
	repl := map[string]string{}
	i := 0
	for virt, content := range ov {
		real := filepath.Join(tmp, fmt.Sprintf("f%d_%s", i, filepath.Base(virt)))
		i++
		if err := os.WriteFile(real, content, 0o644); err != nil {
			return nil, "", err
		}
		repl[virt] = real
	}
	ovb, _ := json.Marshal(map[string]interface{}{"Replace": repl})
	ovf := filepath.Join(tmp, "overlay.json")
	os.WriteFile(ovf, ovb, 0o644)
	rb, _ := json.Marshal(reqs)
	rf := filepath.Join(tmp, "replays.json")
	os.WriteFile(rf, rb, 0o644)
	pkgDir := "./" + subPkgs[sub][1]
	cmd := exec.Command("go", "test", "-vet=off", "-count=1", "-tags", "verif verifnative", "-overlay", ovf, "-run", "^TestVerifReplay$", "-v", "-timeout", "20m", pkgDir)
	cmd.Dir = repo
	cmd.Env = append(os.Environ(), "GOFLAGS=-mod=mod", "GOPROXY=off", "GOSUMDB=off", "GOTOOLCHAIN=local", "VERIF_REPLAY="+rf)
	out, err := cmd.CombinedOutput()
	res := map[string]replayRes{}
	for _, line := range strings.Split(string(out), "\n") {
		line = strings.TrimSpace(line)
		if strings.HasPrefix(line, "VREPLAY {") {
			var r replayRes
			if json.Unmarshal([]byte(strings.TrimPrefix(line, "VREPLAY ")), &r) == nil {
				res[r.ID] = r
			}
		}
	}
	if len(res) == 0 && err != nil {
		return nil, string(out), fmt.Errorf("native replay build/run failed: %v", err)
	}
	return res, string(out), nil
}

func (r *report) finish() int {
	known := []Finding{}
	if b, err := os.ReadFile(filepath.Join(r.Vdir, "known_findings.json")); err == nil {
		var kf struct {
			Findings []Finding `json:"findings"`
		}
		if err := json.Unmarshal(b, &kf); err != nil {
			fmt.Println("INCONCLUSIVE known_findings.json does not parse:", err)
			return 2
		}
		known = kf.Findings
	}

	inconclusive := []string{}
	// ---- collect violation candidates and passing samples for native replay ----
	type cand struct {
		v     interp.Violation
		h     *Harness
		id    string
		count int
	}
	var cands []cand
	bySub := map[string][]replayReq{}
	names := []string{}
	for n := range r.aggs {
		names = append(names, n)
	}
	sort.Strings(names)
	sampleIDs := map[string]sampleRec{}
	for _, n := range names {
		a := r.aggs[n]
		labels := []string{}
		for l := range a.Viol {
			labels = append(labels, l)
		}
		sort.Strings(labels)
		for _, l := range labels {
			for k, v := range a.Viol[l] {
				id := fmt.Sprintf("v-%s-%d-%d", n, len(cands), k)
				cands = append(cands, cand{v, a.h, id, a.ViolCount[l]})
				if !a.h.NoNative {
					bySub[a.h.Sub] = append(bySub[a.h.Sub], replayReq{ID: id, Harness: n, Inputs: v.Inputs, Tier: r.tier, Params: a.h.params(r.tier)})
				}
			}
		}
		if !a.h.NoNative && a.h.Expect == "" {
			ns := 3
			if r.tier > 0 {
				ns = 10
			}
			step := 1
			if len(a.Samples) > ns {
				step = len(a.Samples) / ns
			}
			cnt := 0
			for i := 0; i < len(a.Samples) && cnt < ns; i += step {
				id := fmt.Sprintf("s-%s-%d", n, i)
				sampleIDs[id] = a.Samples[i]
				bySub[a.h.Sub] = append(bySub[a.h.Sub], replayReq{ID: id, Harness: n, Inputs: a.Samples[i].Inputs, Tier: r.tier, Params: a.h.params(r.tier)})
				cnt++
			}
		}
	}
	native := map[string]replayRes{}
	replayS := 0.0
	if !r.NoReplay {
		t1 := time.Now()
		for sub, reqs := range bySub {
			res, out, err := nativeReplay(r.Repo, r.hs, sub, reqs)
			if err != nil {
				inconclusive = append(inconclusive, "native replay failed for package "+sub+": "+err.Error()+"\n"+trunc(out, 2000))
				continue
			}
			for k, v := range res {
				native[k] = v
			}
		}
		replayS = time.Since(t1).Seconds()
	}

	// ---- passing samples: native run must reach the same labels without failed assertions ----
	validated, mismatches := 0, 0
	for id, s := range sampleIDs {
		nr, ok := native[id]
		if !ok {
			continue
		}
		got := map[string]int{}
		bad := ""
		for _, ev := range nr.Events {
			if strings.HasPrefix(ev, "reach ") {
				got[strings.TrimPrefix(ev, "reach ")]++
			} else {
				bad = ev
			}
		}
		if nr.Status != "done" {
			bad = "status " + nr.Status + " " + strings.Join(nr.Events, "; ")
		}
		same := len(got) == len(s.Reach)
		for k, v := range s.Reach {
			if got[k] != v {
				same = false
			}
		}
		if bad != "" || !same {
			mismatches++
			inconclusive = append(inconclusive, fmt.Sprintf("TRANSLATION-MISMATCH %s: engine reach %v, native reach %v %s (inputs %s)", id, s.Reach, got, bad, renderInputs(s.Inputs)))
		} else {
			validated++
		}
	}

	// ---- classify violations ----
	violations := 0
	var outLines []string
	knownSeen := map[string]bool{}
	os.MkdirAll(filepath.Join(r.Vdir, "replays"), 0o755)
	reported := map[string]bool{}
	expectSeen := map[string]bool{}
	for _, c := range cands {
		key := c.v.Harness + "|" + c.v.Label
		if c.h.Expect == "violation" {
			expectSeen[c.h.Fn] = true
			continue
		}
		confirmed := c.h.NoNative || r.NoReplay
		detail := ""
		if !confirmed {
			nr, ok := native[c.id]
			if ok {
				if c.v.Kind == "panic" {
					if nr.Status == "panic" {
						confirmed = true
					}
					for _, ev := range nr.Events {
						if strings.HasPrefix(ev, "panic ") {
							detail = ev
						}
					}
				} else {
					for _, ev := range nr.Events {
						if ev == "assert-failed "+c.v.Label {
							confirmed = true
						}
					}
				}
				if !confirmed {
					detail = fmt.Sprintf("native status=%s events=%v", nr.Status, nr.Events)
				}
			} else {
				detail = "no native result"
			}
		}
		if reported[key] {
			continue
		}
		if !confirmed {
			// try the next model of the same label before giving up
			more := false
			for _, c2 := range cands {
				if c2.v.Harness == c.v.Harness && c2.v.Label == c.v.Label && c2.id != c.id {
					if nr, ok := native[c2.id]; ok {
						for _, ev := range nr.Events {
							if ev == "assert-failed "+c.v.Label || (c.v.Kind == "panic" && nr.Status == "panic") {
								more = true
							}
						}
					}
				}
			}
			if more {
				continue
			}
			reported[key] = true
			inconclusive = append(inconclusive, fmt.Sprintf("UNCONFIRMED %s [%s] %s: solver model did not reproduce natively (%s); inputs %s", c.v.Harness, c.v.Label, c.v.Detail, detail, renderInputs(c.v.Inputs)))
			continue
		}
		reported[key] = true
		var kf *Finding
		for i := range known {
			f := &known[i]
			if f.Status != "fixed" && f.Property == r.Prop && f.Harness == c.v.Harness && labelMatch(f.Label, c.v.Label) {
				kf = f
			}
		}
		path := filepath.Join(r.Vdir, "replays", fmt.Sprintf("%s-%s-%d.json", r.Prop, c.v.Harness, len(reported)))
		rb, _ := json.MarshalIndent(map[string]interface{}{"property": r.Prop, "harness": c.v.Harness, "sub": c.h.Sub, "label": c.v.Label, "kind": c.v.Kind,
			"detail": c.v.Detail + " " + detail, "inputs": c.v.Inputs, "decisions": c.v.Decisions, "tier": r.tier, "params": c.h.params(r.tier), "paths_with_this_label": c.count}, "", " ")
		os.WriteFile(path, rb, 0o644)
		if kf != nil {
			if !knownSeen[kf.ID] {
				knownSeen[kf.ID] = true
				outLines = append(outLines, fmt.Sprintf("KNOWN-FINDING: property=%s %s [%s/%s] %s", r.Prop, kf.ID, c.v.Harness, c.v.Label, kf.What))
			}
			continue
		}
		violations++
		outLines = append(outLines, fmt.Sprintf("VIOLATION property=%s replay=%s", r.Prop, path))
		outLines = append(outLines, fmt.Sprintf("  harness=%s label=%q kind=%s %s %s inputs: %s", c.v.Harness, c.v.Label, c.v.Kind, c.v.Detail, detail, renderInputs(c.v.Inputs)))
	}

	// ---- per-harness health ----
	states, transitions, queries, symPaths, distinct := 0, int64(0), 0, 0, 0
	solverS := 0.0
	var hsum []map[string]interface{}
	var samples []interface{}
	for _, n := range names {
		a := r.aggs[n]
		states += a.Paths
		transitions += a.Instrs
		queries += a.Queries
		solverS += a.SolverS
		symPaths += a.SymPaths
		distinct += len(a.distinct)
		for msg, k := range a.Aborts {
			inconclusive = append(inconclusive, fmt.Sprintf("%s: %d path(s) aborted: %s", n, k, msg))
		}
		if a.Truncated {
			inconclusive = append(inconclusive, fmt.Sprintf("%s: path budget exhausted (BOUND-EXCEEDED), exploration incomplete", n))
		}
		if a.Reach["end"] == 0 && a.h.Expect == "" {
			inconclusive = append(inconclusive, fmt.Sprintf("%s: VACUOUS — no path reached the end of the harness", n))
		}
		if a.h.Expect == "violation" && !expectSeen[n] {
			inconclusive = append(inconclusive, fmt.Sprintf("%s: planted-failure twin was NOT reported violated — the harness cannot see failures", n))
		}
		for nt, k := range a.Notes {
			if strings.Contains(nt, "INCONCLUSIVE") {
				inconclusive = append(inconclusive, fmt.Sprintf("%s: %s (%d)", n, nt, k))
			}
		}
		hsum = append(hsum, map[string]interface{}{
			"harness": n, "package": a.h.Sub, "bounds": a.h.Bounds, "params": a.h.params(r.tier), "paths": a.Paths, "completed": a.OK, "ended_by_assumption": a.AssumeEnd,
			"aborted": len(a.Aborts), "reach": a.Reach, "ssa_instructions": a.Instrs, "queries": a.Queries, "branch_sides_decided_by_cached_model": a.ModelEvals,
			"sat": a.Sat, "unsat": a.Unsat, "unknown": a.Unknown, "fallbacks": a.Fallbacks,
			"solver_s": round2(a.SolverS), "paths_with_symbolic_inputs_or_solver_decided_branch": a.SymPaths, "assertions_on_symbolic_conditions_sent_to_solver": a.SymAsserts, "violating_labels": a.ViolCount, "assumptions": a.h.Assumes, "planted_failure_twin": a.h.Expect == "violation",
			"native_confirmation": !a.h.NoNative,
		})
		for i, s := range a.Samples {
			if i < 2 {
				samples = append(samples, map[string]interface{}{"harness": n, "decisions": s.Decisions, "inputs_model_of_path_condition": compactInputs(s.Inputs), "reach": s.Reach})
			}
		}
	}
	if len(samples) > 24 {
		samples = samples[:24]
	}
	var encoded []string
	for f := range r.funcs {
		if strings.Contains(f, modPath) && !strings.Contains(f, ".H_") && !strings.Contains(f, ".V") {
			encoded = append(encoded, strings.ReplaceAll(f, modPath, "lua"))
		}
	}
	sort.Strings(encoded)
	var stubList []string
	for s := range r.stubs {
		stubList = append(stubList, s)
	}
	sort.Strings(stubList)

	wall := time.Since(r.t0).Seconds()
	if !r.NoEvidence {
		var assumptions []string
		assumptions = append(assumptions,
			"bounded symbolic execution: the verdict covers every value of the symbolic inputs on every feasible path of the listed harnesses within their stated bounds; nothing outside the bounds is claimed",
			"Go SSA (x/tools v0.29.0) is faithful to the compiler; interpreter fork + term encodings validated by native replay of sampled paths (traces_validated_against_impl)",
			"float64->int conversion follows amd64 CVTTSD2SQ (0x8000000000000000 when out of range/NaN)",
			"math.Mod/Pow/Exp/Log/trig are uninterpreted functions when an argument is symbolic; fmt output with a symbolic argument is an opaque string",
			"allocator.LNumber2I is stubbed to plain boxing; sync.Pool.Get returns nil unless a harness binds its own stub")
		for _, n := range names {
			for _, as := range r.aggs[n].h.Assumes {
				assumptions = append(assumptions, n+": "+as)
			}
		}
		seed, _ := strconv.Atoi(os.Getenv("VERIF_SEED"))
		ev := map[string]interface{}{
			"property_id": r.Prop, "tier": r.Tier, "seed": seed, "level": "model_checking",
			"coverage": map[string]interface{}{
				"states": states, "transitions": transitions, "traces_validated_against_impl": validated, "samples": samples,
				"evaluations": states, "distinct_nontrivial": symPaths,
				"rule": "one evaluation = one feasible path of a harness, enumerated exhaustively by solver-decided forking (DFS by re-execution); a path counts as non-trivial when it carries at least one symbolic input variable (so its assertions are established for every value of that variable on the path, by solver query or by identity of the hash-consed terms) or at least one branch decided by the SMT solver; paths are distinct by decision vector",
				"distinct_paths": distinct, "exhaustive_within_bounds": len(inconclusive) == 0,
				"functions_encoded": encoded, "harnesses": hsum, "stubs_bound": stubList,
				"queries_discharged": queries, "solver_time_s": round2(solverS), "solver": r.Solver + " (incremental, one process per worker); fallback z3-new 5.1.0 then cvc5 on unknown",
				"native_replay_mismatches": mismatches, "inconclusive": inconclusive,
				"engine_load_s": round2(r.LoadS), "explore_wall_s": round2(r.ExploreS), "native_replay_wall_s": round2(replayS), "workers": r.Workers,
				"explanation": "Real functions of /repo's working tree are executed symbolically from their Go SSA; each property clause is an assertion whose negation is given to the SMT solver with the path condition.",
			},
			"assumptions": assumptions, "wall_s": round2(wall), "violations": violations,
		}
		b, _ := json.MarshalIndent(ev, "", " ")
		os.MkdirAll(filepath.Join(r.Vdir, "evidence"), 0o755)
		os.WriteFile(filepath.Join(r.Vdir, "evidence", r.Prop+".json"), b, 0o644)
	}

	// ---- output ----
	for _, n := range names {
		a := r.aggs[n]
		fmt.Printf("harness %-34s paths=%-6d ok=%-6d assume-ended=%-5d aborted=%-3d queries=%-7d solver=%.1fs instrs=%d reach=%v\n", n, a.Paths, a.OK, a.AssumeEnd, len(a.Aborts), a.Queries, a.SolverS, a.Instrs, a.Reach)
	}
	if r.Verbose {
		for _, n := range names {
			for nt, k := range r.aggs[n].Notes {
				fmt.Printf("note %s: %s (%d)\n", n, nt, k)
			}
		}
	}
	fmt.Printf("property %s tier %s: %d paths, %d queries, solver %.1fs, load %.1fs, explore %.1fs, native replay %.1fs (%d passing paths validated), wall %.1fs\n",
		r.Prop, r.Tier, states, queries, solverS, r.LoadS, r.ExploreS, replayS, validated, wall)
	for _, l := range outLines {
		fmt.Println(l)
	}
	for _, l := range inconclusive {
		fmt.Println("INCONCLUSIVE", l)
	}
	if violations > 0 {
		return 1
	}
	if len(inconclusive) > 0 {
		return 2
	}
	fmt.Printf("OK property=%s held on everything explored\n", r.Prop)
	return 0
}

func round2(f float64) float64 { return float64(int64(f*100+0.5)) / 100 }

func trunc(s string, n int) string {
	if len(s) > n {
		return s[:n] + "…"
	}
	return s
}

func renderInputs(in []interp.InputVal) string {
	var parts []string
	for _, v := range in {
		parts = append(parts, v.Name+"="+v.Text)
	}
	return trunc(strings.Join(parts, " "), 600)
}

func compactInputs(in []interp.InputVal) []string {
	var parts []string
	for i, v := range in {
		if i >= 24 {
			parts = append(parts, "…")
			break
		}
		parts = append(parts, v.Name+"="+v.Text)
	}
	return parts
}

// replayMain re-runs one stored replay file natively: exit 1 if the violation reproduces.
func replayMain(args []string) int {
	if len(args) < 1 {
		fmt.Println("usage: vcheck replay <file>")
		return 3
	}
	b, err := os.ReadFile(args[0])
	if err != nil {
		fmt.Println(err)
		return 3
	}
	var rp struct {
		Property string            `json:"property"`
		Harness  string            `json:"harness"`
		Sub      string            `json:"sub"`
		Label    string            `json:"label"`
		Kind     string            `json:"kind"`
		Inputs   []interp.InputVal `json:"inputs"`
		Tier     int               `json:"tier"`
		Params   map[string]int    `json:"params"`
	}
	if err := json.Unmarshal(b, &rp); err != nil {
		fmt.Println(err)
		return 3
	}
	hs, err := discover("/verif/harness")
	if err != nil {
		fmt.Println(err)
		return 3
	}
	res, out, err := nativeReplay("/repo", hs, rp.Sub, []replayReq{{ID: "r", Harness: rp.Harness, Inputs: rp.Inputs, Tier: rp.Tier, Params: rp.Params}})
	if err != nil {
		fmt.Println(err, out)
		return 3
	}
	r := res["r"]
	fmt.Printf("native status=%s events=%v\n", r.Status, r.Events)
	for _, ev := range r.Events {
		if ev == "assert-failed "+rp.Label {
			fmt.Printf("VIOLATION property=%s replay=%s\n", rp.Property, args[0])
			return 1
		}
	}
	if rp.Kind == "panic" && r.Status == "panic" {
		fmt.Printf("VIOLATION property=%s replay=%s\n", rp.Property, args[0])
		return 1
	}
	fmt.Println("not reproduced")
	return 0
}

func nativeBatchMain(args []string) int {
	if len(args) < 2 {
		fmt.Println("usage: vcheck nativebatch <sub> <requests.json> [repo]")
		return 3
	}
	repo := "/repo"
	if len(args) > 2 {
		repo = args[2]
	}
	b, err := os.ReadFile(args[1])
	if err != nil {
		fmt.Println(err)
		return 3
	}
	var reqs []replayReq
	if err := json.Unmarshal(b, &reqs); err != nil {
		fmt.Println(err)
		return 3
	}
	hs, err := discover("/verif/harness")
	if err != nil {
		fmt.Println(err)
		return 3
	}
	res, out, err := nativeReplay(repo, hs, args[0], reqs)
	if err != nil {
		fmt.Println(err, out)
		return 3
	}
	bad := 0
	for _, rq := range reqs {
		r := res[rq.ID]
		fail := r.Status != "done"
		for _, ev := range r.Events {
			if strings.HasPrefix(ev, "assert-failed") || strings.HasPrefix(ev, "abort") || strings.HasPrefix(ev, "panic") {
				fail = true
			}
		}
		if fail {
			bad++
			fmt.Printf("%s status=%s events=%v\n", rq.ID, r.Status, r.Events)
		}
	}
	fmt.Printf("nativebatch: %d requests, %d not clean\n", len(reqs), bad)
	return 0
}
