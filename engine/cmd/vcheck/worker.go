package main

import (
	"bufio"
	"encoding/json"
	"fmt"
	"go/types"
	"os"
	"path/filepath"
	"strings"
	"time"

	"gosym/interp"

	"golang.org/x/tools/go/packages"
	"golang.org/x/tools/go/ssa"
	"golang.org/x/tools/go/ssa/ssautil"
)

type Request struct {
	Harness string         `json:"harness"`
	Sub     string         `json:"sub"`
	Prefix  []int64        `json:"prefix"`
	Params  map[string]int `json:"params"`
	Tier    int            `json:"tier"`
	Sample  bool           `json:"sample"`
	MaxInstrs int64        `json:"max_instrs"`
	Quit    bool           `json:"quit"`
}

var interpretedPkgs = map[string]bool{
	modPath: true, modPath + "/ast": true, modPath + "/parse": true, modPath + "/pm": true,
	"strings": true, "strconv": true, "unicode": true, "unicode/utf8": true, "errors": true,
	"sort": true, "math": true, "math/bits": true, "bytes": true, "io": true, "bufio": true,
	"context": true, "slices": true, "fmt": true, "internal/fmtsort": true, "time": true,
}

var noInit = map[string]bool{"errors": true, "context": true}

type loaded struct {
	prog  *ssa.Program
	pkgs  map[string]*ssa.Package // sub -> package
	I     *interp.Interp
	loadS float64
}

func loadTarget(repo string, hs *HarnessSet) (*loaded, error) {
	t0 := time.Now()
	if os.Getenv("VERIF_REALFMT") != "" {
		interp.UseRealFmt()
	}
	ov, err := hs.overlay(repo, false)
	if err != nil {
		return nil, err
	}
	cfg := &packages.Config{
		Mode:       packages.LoadAllSyntax,
		Dir:        repo,
		Overlay:    ov,
		BuildFlags: []string{"-tags=verif"},
		Env:        append(os.Environ(), "GOFLAGS=-mod=mod", "GOPROXY=off", "GOSUMDB=off", "GOTOOLCHAIN=local"),
	}
	var pats []string
	for sub, info := range subPkgs {
		if len(hs.Files[sub]) > 0 || sub == "lua" {
			pats = append(pats, "./"+info[1])
		}
	}
	pkgs, err := packages.Load(cfg, pats...)
	if err != nil {
		return nil, err
	}
	nerr := 0
	packages.Visit(pkgs, nil, func(p *packages.Package) {
		for _, e := range p.Errors {
			fmt.Fprintln(os.Stderr, "load error:", e)
			nerr++
		}
	})
	if nerr > 0 {
		return nil, fmt.Errorf("%d load errors (the repository or a harness does not type-check)", nerr)
	}
	prog, spkgs := ssautil.AllPackages(pkgs, ssa.InstantiateGenerics)
	for _, p := range prog.AllPackages() {
		if interpretedPkgs[p.Pkg.Path()] {
			p.Build()
		}
	}
	l := &loaded{prog: prog, pkgs: map[string]*ssa.Package{}}
	for i, p := range pkgs {
		for sub, info := range subPkgs {
			full := modPath
			if info[1] != "" {
				full += "/" + info[1]
			}
			if p.PkgPath == full {
				l.pkgs[sub] = spkgs[i]
			}
		}
	}
	interp.AllowInit = func(p *ssa.Package) bool { return interpretedPkgs[p.Pkg.Path()] && !noInit[p.Pkg.Path()] }
	for _, st := range hs.Stubs {
		fn := l.pkgs[st.Sub].Func(st.Fn)
		if fn == nil {
			return nil, fmt.Errorf("stub %s not found", st.Fn)
		}
		interp.StubBindings[st.Target] = fn
	}
	l.I = interp.New(prog, types.SizesFor("gc", "amd64"))
	for _, sub := range []string{"lua", "pm", "parse"} {
		if p := l.pkgs[sub]; p != nil {
			if _, pan := l.I.Call(p.Func("init")); pan != nil {
				return nil, fmt.Errorf("init of %s panicked: %v", sub, pan)
			}
		}
	}
	l.I.SnapshotGlobals()
	l.loadS = time.Since(t0).Seconds()
	return l, nil
}

func workerMain(repo, hdir string) {
	hs, err := discover(hdir)
	if err != nil {
		fmt.Println(`{"fatal":` + jsonStr(err.Error()) + `}`)
		os.Exit(3)
	}
	l, err := loadTarget(repo, hs)
	if err != nil {
		fmt.Println(`{"fatal":` + jsonStr(err.Error()) + `}`)
		os.Exit(3)
	}
	out := bufio.NewWriter(os.Stdout)
	fmt.Fprintf(out, "{\"ready\":true,\"load_s\":%.2f}\n", l.loadS)
	out.Flush()
	ex := interp.NewExplorer(l.I)
	defer ex.Close()
	in := bufio.NewReaderSize(os.Stdin, 1<<20)
	for {
		line, err := in.ReadBytes('\n')
		if err != nil {
			return
		}
		var rq Request
		if err := json.Unmarshal(line, &rq); err != nil {
			fmt.Fprintln(os.Stderr, "bad request:", err)
			continue
		}
		if rq.Quit {
			return
		}
		pkg := l.pkgs[rq.Sub]
		var res *interp.PathResult
		if pkg == nil || pkg.Func(rq.Harness) == nil {
			res = &interp.PathResult{Harness: rq.Harness, Prefix: rq.Prefix, Status: "abort", AbortMsg: "no such harness function"}
		} else {
			ex.Tier = rq.Tier
			ex.Params = rq.Params
			ex.WantSample = rq.Sample
			if rq.MaxInstrs > 0 {
				ex.MaxInstrs = rq.MaxInstrs
			}
			interp.PathWallLimit = 120
			if rq.Tier > 0 {
				interp.PathWallLimit = 600
			}
			res = ex.RunPath(pkg.Func(rq.Harness), rq.Harness, rq.Prefix)
		}
		b, _ := json.Marshal(res)
		out.Write(b)
		out.WriteByte('\n')
		out.Flush()
	}
}

func jsonStr(s string) string {
	b, _ := json.Marshal(s)
	return string(b)
}

var _ = filepath.Join
var _ = strings.TrimSpace
