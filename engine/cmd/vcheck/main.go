package main

import (
	"bufio"
	"encoding/json"
	"flag"
	"fmt"
	"io"
	"os"
	"os/exec"
	"path/filepath"
	"runtime"
	"sort"
	"strings"
	"sync"
	"time"

	"gosym/interp"
)

func main() {
	if len(os.Args) < 2 {
		fmt.Fprintln(os.Stderr, "usage: vcheck check|worker|list|replay ...")
		os.Exit(3)
	}
	switch os.Args[1] {
	case "worker":
		fs := flag.NewFlagSet("worker", flag.ExitOnError)
		repo := fs.String("repo", "/repo", "")
		hdir := fs.String("hdir", "/verif/harness", "")
		solver := fs.String("solver", "z3", "")
		tmo := fs.Int("timeout-ms", 20000, "")
		fs.Parse(os.Args[2:])
		interp.PrimarySolver = *solver
		interp.SolverTimeoutMs = *tmo
		workerMain(*repo, *hdir)
	case "check":
		os.Exit(checkMain(os.Args[2:]))
	case "list":
		hs, err := discover("/verif/harness")
		if err != nil {
			fmt.Println(err)
			os.Exit(3)
		}
		for _, h := range hs.Harnesses {
			fmt.Printf("%-40s %-6s %-8s %v %s\n", h.Fn, h.Sub, h.Tier, h.Props, h.Bounds)
		}
	case "selftest":
		interp.SolverTimeoutMs = 20000
		n, fails := interp.SelfTest(1)
		for _, f := range fails {
			fmt.Println("SELFTEST-FAIL", f)
		}
		fmt.Printf("selftest: %d obligations, %d failures\n", n, len(fails))
		if len(fails) > 0 {
			os.Exit(1)
		}
	case "replay":
		os.Exit(replayMain(os.Args[2:]))
	case "nativebatch":
		// development aid: run a JSON array of replay requests natively (vcheck nativebatch <sub> <file> [repo])
		os.Exit(nativeBatchMain(os.Args[2:]))
	default:
		fmt.Fprintln(os.Stderr, "unknown command")
		os.Exit(3)
	}
}

type worker struct {
	id   int
	cmd  *exec.Cmd
	in   io.WriteCloser
	out  *bufio.Reader
	dead bool
}

type workItem struct {
	h      *Harness
	prefix []int64
}

type harnessAgg struct {
	h          *Harness
	Paths      int
	OK         int
	AssumeEnd  int
	Aborts     map[string]int
	Reach      map[string]int
	Instrs     int64
	Queries    int
	ModelEvals int
	SolverS    float64
	SymPaths   int
	SymAsserts int
	Sat        int
	Unsat      int
	Unknown    int
	Fallbacks  int
	Viol       map[string][]interp.Violation // label -> first few
	ViolCount  map[string]int
	islandKept map[string]int
	Samples    []sampleRec
	Truncated  bool
	Notes      map[string]int
	distinct   map[string]bool
}

type sampleRec struct {
	Decisions []int64           `json:"decisions"`
	Inputs    []interp.InputVal `json:"inputs"`
	Reach     map[string]int    `json:"reach"`
}

func startWorker(id int, self, repo, hdir, solver string, tmo int) (*worker, error) {
	cmd := exec.Command(self, "worker", "-repo", repo, "-hdir", hdir, "-solver", solver, "-timeout-ms", fmt.Sprint(tmo))
	cmd.Stderr = os.Stderr
	in, _ := cmd.StdinPipe()
	outp, _ := cmd.StdoutPipe()
	if err := cmd.Start(); err != nil {
		return nil, err
	}
	w := &worker{id: id, cmd: cmd, in: in, out: bufio.NewReaderSize(outp, 1<<20)}
	line, err := w.out.ReadBytes('\n')
	if err != nil {
		return nil, fmt.Errorf("worker %d died during load", id)
	}
	var hello map[string]interface{}
	json.Unmarshal(line, &hello)
	if f, ok := hello["fatal"]; ok {
		return nil, fmt.Errorf("worker load failed: %v", f)
	}
	return w, nil
}

func checkMain(args []string) int {
	fs := flag.NewFlagSet("check", flag.ExitOnError)
	prop := fs.String("prop", "", "property id")
	tierS := fs.String("tier", "quick", "quick|thorough")
	repo := fs.String("repo", "/repo", "")
	vdir := fs.String("verif", "/verif", "")
	only := fs.String("only", "", "comma-separated harness names")
	nw := fs.Int("workers", 0, "")
	verbose := fs.Bool("v", false, "")
	solver := fs.String("solver", "z3", "")
	noReplay := fs.Bool("no-replay", false, "")
	noEvidence := fs.Bool("no-evidence", false, "")
	pathTimeout := fs.Int("path-timeout", 0, "seconds per path")
	fs.Parse(args)
	t0 := time.Now()
	tier := 0
	if *tierS == "thorough" {
		tier = 1
	}
	if os.Getenv("VERIF_TIER") == "thorough" && *tierS == "" {
		tier = 1
	}
	hdir := filepath.Join(*vdir, "harness")
	// the harness sources are snapshotted for the duration of the run: workers (also restarted ones) and the
	// native replay all see the files as they were when the check started
	if snap, err := os.MkdirTemp("", "verif-harness-"); err == nil {
		if exec.Command("cp", "-r", hdir+"/.", snap).Run() == nil {
			hdir = snap
			defer os.RemoveAll(snap)
		} else {
			os.RemoveAll(snap)
		}
	}
	hs, err := discover(hdir)
	if err != nil {
		fmt.Println("INCONCLUSIVE cannot parse harnesses:", err)
		return 2
	}
	var sel []*Harness
	onlySet := map[string]bool{}
	for _, o := range strings.Split(*only, ",") {
		if o != "" {
			onlySet[o] = true
		}
	}
	for _, h := range hs.Harnesses {
		if len(onlySet) > 0 {
			if onlySet[h.Fn] {
				sel = append(sel, h)
			}
			continue
		}
		match := false
		for _, p := range h.Props {
			if p == *prop {
				match = true
			}
		}
		if !match {
			continue
		}
		if h.Tier == "thorough" && tier == 0 {
			continue
		}
		sel = append(sel, h)
	}
	if len(sel) == 0 {
		fmt.Println("INCONCLUSIVE no harness selected for", *prop)
		return 2
	}
	n := *nw
	if n == 0 {
		n = runtime.NumCPU()
	}
	self, _ := os.Executable()
	tmo := 20000
	if tier > 0 {
		tmo = 120000
	}
	ptmo := *pathTimeout
	if ptmo == 0 {
		ptmo = 300
		if tier > 0 {
			ptmo = 1200
		}
	}

	// start workers in parallel
	workers := make([]*worker, n)
	var wg sync.WaitGroup
	var startErr error
	var mu sync.Mutex
	for i := 0; i < n; i++ {
		wg.Add(1)
		go func(i int) {
			defer wg.Done()
			w, err := startWorker(i, self, *repo, hdir, *solver, tmo)
			mu.Lock()
			defer mu.Unlock()
			if err != nil {
				startErr = err
				return
			}
			workers[i] = w
		}(i)
		if i == 0 {
			// let the first worker warm the build cache before the others start
			wg.Wait()
			if startErr != nil {
				break
			}
		}
	}
	wg.Wait()
	if startErr != nil {
		fmt.Println("INCONCLUSIVE engine could not load the repository:", startErr)
		for _, w := range workers {
			if w != nil {
				w.cmd.Process.Kill()
			}
		}
		return 2
	}
	loadS := time.Since(t0).Seconds()

	aggs := map[string]*harnessAgg{}
	var queue []workItem
	for i := len(sel) - 1; i >= 0; i-- {
		h := sel[i]
		aggs[h.Fn] = &harnessAgg{h: h, Aborts: map[string]int{}, Reach: map[string]int{}, Viol: map[string][]interp.Violation{}, ViolCount: map[string]int{}, islandKept: map[string]int{}, Notes: map[string]int{}, distinct: map[string]bool{}}
		queue = append(queue, workItem{h, nil})
	}
	type result struct {
		w   *worker
		it  workItem
		res *interp.PathResult
		err error
	}
	results := make(chan result, n)
	idle := append([]*worker{}, workers...)
	inflight := 0
	funcs := map[string]bool{}
	stubs := map[string]bool{}
	maxPaths := func(h *Harness) int {
		m := h.MaxPaths
		if tier > 0 && h.TMaxPaths > 0 {
			m = h.TMaxPaths
		}
		if m == 0 {
			m = 200000
		}
		return m
	}
	dispatch := func(w *worker, it workItem) {
		inflight++
		a := aggs[it.h.Fn]
		rq := Request{Harness: it.h.Fn, Sub: it.h.Sub, Prefix: it.prefix, Params: it.h.params(tier), Tier: tier, Sample: len(a.Samples) < 40}
		go func() {
			b, _ := json.Marshal(rq)
			done := make(chan result, 1)
			go func() {
				if _, err := w.in.Write(append(b, '\n')); err != nil {
					done <- result{w, it, nil, err}
					return
				}
				line, err := w.out.ReadBytes('\n')
				if err != nil {
					done <- result{w, it, nil, err}
					return
				}
				var pr interp.PathResult
				if err := json.Unmarshal(line, &pr); err != nil {
					done <- result{w, it, nil, err}
					return
				}
				done <- result{w, it, &pr, nil}
			}()
			select {
			case r := <-done:
				results <- r
			case <-time.After(time.Duration(ptmo) * time.Second):
				w.cmd.Process.Kill()
				results <- result{w, it, nil, fmt.Errorf("path exceeded %ds wall clock", ptmo)}
			}
		}()
	}
	lastPrint := time.Now()
	total := 0
	retries := map[string]int{}
	for len(queue) > 0 || inflight > 0 {
		for len(queue) > 0 && len(idle) > 0 {
			it := queue[len(queue)-1]
			queue = queue[:len(queue)-1]
			a := aggs[it.h.Fn]
			if a.Paths >= maxPaths(it.h) {
				a.Truncated = true
				continue
			}
			a.Paths++
			total++
			w := idle[len(idle)-1]
			idle = idle[:len(idle)-1]
			dispatch(w, it)
		}
		if inflight == 0 {
			break
		}
		r := <-results
		inflight--
		a := aggs[r.it.h.Fn]
		if r.err != nil {
			a.Aborts[fmt.Sprintf("worker failure: %v (prefix %v)", r.err, r.it.prefix)]++
			r.w.cmd.Process.Kill()
			r.w.cmd.Wait()
			nwk, err := startWorker(r.w.id, self, *repo, hdir, *solver, tmo)
			if err == nil {
				idle = append(idle, nwk)
				for i := range workers {
					if workers[i] == r.w {
						workers[i] = nwk
					}
				}
			}
			continue
		}
		idle = append(idle, r.w)
		pr := r.res
		if *verbose && total%200 == 0 {
			fmt.Printf("  sample path %s %v status=%s\n", pr.Harness, pr.Decisions, pr.Status)
		}
		if *verbose && pr.WallS > 5 {
			fmt.Printf("  slow path %s %v: wall %.1fs solver %.1fs queries %d instrs %d\n", pr.Harness, pr.Decisions, pr.WallS, pr.SolverS, pr.Queries, pr.Instrs)
		}
		// a scheduled prefix that the solver now calls infeasible, or a solver that gave up on a path condition
		// it had accepted: seen only under heavy machine load (time limits hit in a different place on
		// re-execution).  The path is re-run, twice at most, before it counts as inconclusive.
		if pr.Status == "abort" && (strings.Contains(pr.AbortMsg, "scheduled prefix is unsat") || strings.Contains(pr.AbortMsg, "solver unknown on path condition")) {
			key := fmt.Sprint(r.it.h.Fn, r.it.prefix)
			if retries[key] < 2 {
				retries[key]++
				a.Paths--
				total--
				queue = append(queue, r.it)
				continue
			}
		}
		switch pr.Status {
		case "ok":
			a.OK++
		case "assume":
			a.AssumeEnd++
		default:
			a.Aborts[pr.AbortMsg]++
		}
		for k, v := range pr.Reach {
			a.Reach[k] += v
		}
		a.Instrs += pr.Instrs
		a.Queries += pr.Queries
		a.ModelEvals += pr.ModelEvals
		a.SolverS += pr.SolverS
		a.Sat += pr.Sat
		a.Unsat += pr.Unsat
		a.Unknown += pr.Unknown
		a.Fallbacks += pr.Fallbacks
		if pr.SymDecs > 0 || pr.SymInputs > 0 {
			a.SymPaths++
		}
		a.SymAsserts += pr.SymAsserts
		a.distinct[fmt.Sprint(pr.Decisions)] = true
		for _, nt := range pr.Notes {
			a.Notes[nt]++
		}
		for _, f := range pr.Funcs {
			funcs[f] = true
		}
		for _, s := range pr.Stubs {
			stubs[s] = true
		}
		for _, v := range pr.Violations {
			a.ViolCount[v.Label]++
			if len(a.Viol[v.Label]) < 3 {
				a.Viol[v.Label] = append(a.Viol[v.Label], v)
			} else if !v.UF && a.islandKept[v.Label] < 3 {
				// a model of a condition without uninterpreted applications replays faithfully: keep some of
				// those even when earlier candidates of the label (possibly with such applications) fill the quota
				a.islandKept[v.Label]++
				a.Viol[v.Label] = append(a.Viol[v.Label], v)
			}
		}
		if pr.Sample != nil && pr.Status == "ok" && len(pr.Violations) == 0 && len(a.Samples) < 40 {
			a.Samples = append(a.Samples, sampleRec{pr.Decisions, pr.Sample, pr.Reach})
		}
		for _, nwk := range pr.NewWork {
			queue = append(queue, workItem{r.it.h, nwk})
		}
		if *verbose && time.Since(lastPrint) > 5*time.Second {
			lastPrint = time.Now()
			fmt.Fprintf(os.Stderr, "[%.0fs] paths=%d queue=%d inflight=%d\n", time.Since(t0).Seconds(), total, len(queue), inflight)
		}
	}
	for _, w := range workers {
		if w != nil {
			b, _ := json.Marshal(Request{Quit: true})
			w.in.Write(append(b, '\n'))
			w.in.Close()
		}
	}
	for _, w := range workers {
		if w != nil {
			done := make(chan bool, 1)
			go func(w *worker) { w.cmd.Wait(); done <- true }(w)
			select {
			case <-done:
			case <-time.After(3 * time.Second):
				w.cmd.Process.Kill()
			}
		}
	}
	exploreS := time.Since(t0).Seconds() - loadS

	rep := &report{Prop: *prop, Tier: *tierS, tier: tier, Repo: *repo, Vdir: *vdir, hs: hs, sel: sel, aggs: aggs, funcs: funcs, stubs: stubs,
		LoadS: loadS, ExploreS: exploreS, Workers: n, t0: t0, Solver: *solver, NoReplay: *noReplay, NoEvidence: *noEvidence, Verbose: *verbose}
	return rep.finish()
}

func sortedKeys(m map[string]int) []string {
	var ks []string
	for k := range m {
		ks = append(ks, k)
	}
	sort.Strings(ks)
	return ks
}
