#!/bin/bash
# usage: tools/run_all.sh [quick|thorough]  — runs every registered check, one after the other, and summarises
cd /verif
tier=${1:-quick}
for p in $(python3 -c "import json;print(' '.join(c['property_id'] for c in json.load(open('MANIFEST.json'))['checks']))"); do
  t0=$(date +%s)
  out=$(timeout ${2:-3000} ./check $p $tier 2>&1); code=$?
  t1=$(date +%s)
  echo "$p exit=$code wall=$((t1-t0))s $(echo "$out" | grep -c '^KNOWN-FINDING') known, $(echo "$out" | grep -c '^VIOLATION') violations, $(echo "$out" | grep -c '^INCONCLUSIVE') inconclusive"
  echo "$out" | grep "^VIOLATION\|^INCONCLUSIVE" | cut -c1-300 | head -5
done
