# Hand-maintained tables for gen_manifest.py
FIX_COMMITS = []
_pending = "check not built yet in this revision (engine under construction); will be decided by the same solver-based engine"
CLAIMED = {
 "C01": {"text": "Bounded symbolic execution of the real lexer/parser/compiler/VM on program templates with symbolic inputs, compared with expected results; constant folding vs run-time arithmetic over all float64 pairs.",
         "note": "Programs outside the template family are outside the claim; math.Mod/Pow uninterpreted.", "ref": "DESIGN.md 6.C01"},
 "C07": {"text": "Instruction codec round trip and setter frame conditions for all operand values (no input bound), decided by SMT over the real opcode.go functions.",
         "note": "Only opcode.go is covered in this revision.", "ref": "DESIGN.md 6.C07"},
}
NA = {p: _pending for p in ["C02","C03","C04","C05","C06","C08","C09","C10","C11","C12","C13","C14","C15","C16","C17","C18","C19","C20"]}
