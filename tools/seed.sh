#!/bin/bash
# usage: tools/seed.sh <agent-out-dir> <seed-name> <prop> [more props...]
# Validates a seeded change (suite passes with it, demo fails with it and passes without), stores it
# under /verif/seeded/<seed-name>/ and runs the quick checks of the given properties against it.
set -u
export GOFLAGS=-mod=mod GOPROXY=off GOSUMDB=off GOTOOLCHAIN=local
src="$1"; name="$2"; shift; shift
props="$@"
wt=/tmp/wt/validate-$$
git -C /repo worktree add -q --detach "$wt" HEAD || exit 1
cleanup() { git -C /repo worktree remove --force "$wt" 2>/dev/null; }
trap cleanup EXIT
cd "$wt"
testname=$(grep -o 'func Test[A-Za-z0-9_]*' "$src/demo_test.go" | head -1 | sed 's/func //')
cp "$src/demo_test.go" zz_demo_test.go
base_demo=$(go test -vet=off -count=1 -run "^${testname}\$" . 2>&1 | tail -1)
if ! git apply "$src/patch.diff"; then echo "SEED $name: patch does not apply to current HEAD"; exit 2; fi
with_demo=$(go test -vet=off -count=1 -run "^${testname}\$" . 2>&1 | tail -1)
rm zz_demo_test.go
suite=$(go test -vet=off -count=1 ./... 2>&1 | grep -v "no test files" | tail -1)
echo "SEED $name: demo on unchanged tree: $base_demo | demo with change: $with_demo | suite with change: $suite"
case "$base_demo" in ok*) ;; *) echo "SEED $name: INVALID (demo does not pass on unchanged tree)"; exit 3;; esac
case "$with_demo" in ok*) echo "SEED $name: INVALID (demo passes with the change)"; exit 3;; esac
case "$suite" in ok*) ;; *) echo "SEED $name: INVALID (suite fails with the change)"; exit 3;; esac
mkdir -p /verif/seeded/$name
cp "$src/patch.diff" "$src/demo_test.go" /verif/seeded/$name/
cd /verif
# the validated worktree still has the change applied: run the checks against it (never against /repo)
results=""
for p in $props; do
  out=$(timeout 1500 ./check $p quick -no-evidence -repo "$wt" 2>&1)
  code=$?
  v=$(echo "$out" | grep -c "^VIOLATION")
  first=$(echo "$out" | grep -A1 "^VIOLATION" | sed -n 2p | cut -c1-260)
  echo "SEED $name: check $p exit=$code violations=$v $first"
  results="$results $p:exit$code:viol$v"
done
python3 - "$src" "$name" "$results" "$base_demo" "$with_demo" "$suite" <<'PY'
import json,sys
src,name,results,base,withd,suite=sys.argv[1:7]
try: meta=json.load(open(src+'/meta.json'))
except Exception as e: meta={"note":"agent meta.json unreadable: %s"%e}
meta["validated"]={"demo_unchanged":base,"demo_with_change":withd,"suite_with_change":suite,"commands":"go test -run <demo>; git apply patch.diff; go test ./...; ./check <prop> quick"}
meta["checks_run"]=results.split()
json.dump(meta,open('/verif/seeded/%s/meta.json'%name,'w'),indent=1)
PY
