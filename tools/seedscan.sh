#!/bin/bash
# usage: tools/seedscan.sh <prop> <harness-list|-> <tier> <seed-name>...
# Re-runs one check (optionally restricted to some harnesses) against stored seeded changes, each applied
# in a scratch worktree outside /repo and /verif.  Prints one line per seed.
set -u
export GOFLAGS=-mod=mod GOPROXY=off GOSUMDB=off GOTOOLCHAIN=local
prop="$1"; only="$2"; tier="$3"; shift; shift; shift
for name in "$@"; do
  wt=/tmp/wt/scan-$$
  git -C /repo worktree add -q --detach "$wt" HEAD || exit 1
  if ! git -C "$wt" apply "/verif/seeded/$name/patch.diff" 2>/dev/null; then
    echo "SCAN $name: patch does not apply to current HEAD"
  else
    args=""
    [ "$only" != "-" ] && args="-only $only"
    out=$(cd /verif && timeout 3000 ./check $prop $tier -no-evidence -repo "$wt" $args 2>&1)
    code=$?
    v=$(echo "$out" | grep -c "^VIOLATION")
    first=$(echo "$out" | grep -A1 "^VIOLATION" | sed -n 2p | cut -c1-200)
    echo "SCAN $name: $prop $only exit=$code violations=$v $first"
  fi
  git -C /repo worktree remove --force "$wt" 2>/dev/null
done
