#!/usr/bin/env python3
"""Regenerates DESIGN.md sections 13 (harness tables), 14.1/14.2 (findings) and the table of section 15 from
vcheck list, known_findings.json and seeded/*/meta.json. Prose around the tables is kept."""
import json,os,subprocess,re
D='/verif/DESIGN.md'
s=open(D).read()
out=subprocess.check_output(['/verif/bin/vcheck','list']).decode()
byprop={}
for l in out.splitlines():
    m=re.match(r'(\S+)\s+(\S+)\s+(\S+)\s+\[([^\]]*)\]\s*(.*)',l)
    if not m: continue
    fn,sub,tier,props,bounds=m.groups()
    for p in props.split(): byprop.setdefault(p,[]).append((fn,sub,tier,bounds))
sec=[]
for p in sorted(byprop):
    if p=='DBG': continue
    sec.append("\n### %s\n\n| harness | package | tier | bounds |\n|---|---|---|---|"%p)
    for fn,sub,tier,bounds in byprop[p]:
        sec.append("| `%s` | %s | %s | %s |"%(fn,sub,tier,bounds.replace('|','/')))
new13="\n".join(sec)+"\n"
i=s.index('\n### C01\n\n| harness |'); j=s.index('\n---', i)
s=s[:i]+new13+s[j:]
k=json.load(open('/verif/known_findings.json'))
fixed=[f for f in k['findings'] if f['status']=='fixed']; openf=[f for f in k['findings'] if f['status']!='fixed']
t=["| commit | property | check that reports it when reverted | defect |","|---|---|---|---|"]
for f in fixed: t.append("| %s | %s | `%s` | %s |"%(f.get('commit',''),f['property'],f['harness'],f['what'].split(' ',3)[-1].replace('|','/')))
i=s.index('| commit | property | check that reports it when reverted | defect |'); j=s.index('\n\n',i)
s=s[:i]+"\n".join(t)+s[j:]
t=["| id | property | harness / label | what fails |","|---|---|---|---|"]
for f in openf: t.append("| %s | %s | `%s` / %s | %s |"%(f['id'],f['property'],f['harness'],f['label'].replace('|','/'),f['what'].replace('|','/')))
i=s.index('| id | property | harness / label | what fails |'); j=s.index('\n\n',i)
s=s[:i]+"\n".join(t)+s[j:]
rows=[]
for d in sorted(os.listdir('/verif/seeded')):
    try: m=json.load(open('/verif/seeded/%s/meta.json'%d))
    except Exception: continue
    hist=" ".join(m.get('checks_run') or [])
    if m.get('first_run'): hist="first run: "+" ".join(m['first_run'])+"; after strengthening ("+(m.get('strengthened_by') or '')[:160].replace('|','/')+"): "+hist
    elif m.get('strengthened_by'): hist=hist+" (after: "+m['strengthened_by'][:160].replace('|','/')+")"
    rows.append((d,m.get('property','?'),(m.get('what','') or '')[:220].replace('\n',' ').replace('|','/'),(m.get('needs','') or '')[:170].replace('\n',' ').replace('|','/'),hist))
t=["| seeded change | property | what it changes | needs | checks run (exit / violations) |","|---|---|---|---|---|"]
for r in rows: t.append("| `%s` | %s | %s | %s | %s |"%r)
i=s.index('| seeded change | property | what it changes | needs | checks run (exit / violations) |'); j=s.index('\n\n',i)
s=s[:i]+"\n".join(t)+s[j:]
open(D,'w').write(s)
print("sections regenerated:",len(byprop),"properties,",len(fixed),"fixed,",len(openf),"open,",len(rows),"seeds")
