#!/bin/bash
# For every fix: commit recorded in known_findings.json, re-introduce the defect (git revert -n on a
# scratch copy of the working tree state in /repo), run the quick check of its property and report
# whether the check notices. /repo is restored after each step.
cd /verif
R=/tmp/regress-repo
rm -rf $R; git clone -q /repo $R
python3 - <<'PY' > /tmp/regress_list.txt
import json
k=json.load(open('/verif/known_findings.json'))
seen=set()
for f in k['findings']:
    if f.get('status')=='fixed' and f.get('commit') and f['commit'] not in seen:
        seen.add(f['commit']); print(f['commit'],f['property'])
PY
while read c p; do
  if ! git -C $R revert -n $c >/dev/null 2>&1; then
    git -C $R revert --abort >/dev/null 2>&1; git -C $R reset -q --hard HEAD
    echo "REGRESS $c $p: revert does not apply cleanly (skipped)"; continue
  fi
  out=$(timeout 1500 ./check $p quick -no-evidence -repo $R 2>&1); code=$?
  v=$(echo "$out" | grep -c "^VIOLATION")
  echo "REGRESS $c $p: exit=$code violations=$v $(echo "$out" | grep -A1 '^VIOLATION' | sed -n 2p | cut -c1-160)"
  git -C $R reset -q --hard HEAD
done < /tmp/regress_list.txt
rm -rf $R
