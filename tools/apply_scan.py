#!/usr/bin/env python3
"""Updates seeded/*/meta.json 'checks_run' from a tools/seedscan.sh log (lines 'SCAN <name>: <prop> <only> exit=N violations=M ...')."""
import json,re,sys
res={}
for l in open(sys.argv[1]):
    m=re.match(r'SCAN (\S+): (\S+) (\S+) exit=(\d+) violations=(\d+)',l)
    if m:
        name,prop,only,code,v=m.groups()
        res.setdefault(name,{})[prop]="%s:exit%s:viol%s"%(prop,code,v)
for name,d in res.items():
    p='/verif/seeded/%s/meta.json'%name
    m=json.load(open(p))
    old={c.split(':')[0]:c for c in m.get('checks_run',[])}
    old.update(d)
    m['checks_run']=list(old.values())
    json.dump(m,open(p,'w'),indent=1)
print(len(res),'seeds updated')
