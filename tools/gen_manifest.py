#!/usr/bin/env python3
"""Regenerates /verif/MANIFEST.json from the table below (kept by hand)."""
import json, os, subprocess

V = "/verif"
# property id -> (level text, level note, design section)
CLAIMED = {
}
NA = {
}

def load_tables():
    import importlib.util
    spec = importlib.util.spec_from_file_location("tables", os.path.join(V, "tools", "manifest_tables.py"))
    m = importlib.util.module_from_spec(spec); spec.loader.exec_module(m)
    return m.CLAIMED, m.NA, m.FIX_COMMITS

def main():
    claimed, na, fixes = load_tables()
    checks = []
    for pid in sorted(claimed):
        c = claimed[pid]
        checks.append({
            "property_id": pid,
            "quick_cmd": f"./check {pid} quick",
            "thorough_cmd": f"./check {pid} thorough",
            "evidence_file": f"/verif/evidence/{pid}.json",
            "replay_cmd_template": "./check replay {path}",
            "engine": "gosym",
            "level_claimed": {"category": "model_checking", "text": c["text"], "design_ref": c.get("ref", "DESIGN.md section 6")},
            "level_note": c["note"],
            "technique": c.get("technique", "bounded symbolic execution of the Go SSA of /repo (own engine) with SMT (z3; z3 5.1/cvc5 fallback) deciding every branch and assertion; counterexamples replayed natively"),
        })
    man = {
        "version": 1,
        "setup_cmd": "cd /verif/engine && GOFLAGS=-mod=mod GOPROXY=off GOSUMDB=off GOTOOLCHAIN=local go build -o /verif/bin/vcheck ./cmd/vcheck",
        "hooks": {
            "guard": "verif",
            "enable": "no source hooks: harnesses are injected as virtual files (go/packages Overlay for the engine, `go test -overlay -tags 'verif verifnative'` for native replay); /repo is never written by a check",
            "baseline_off_cmd": "cd /repo && GOFLAGS=-mod=mod go test -vet=off -count=1 -timeout 25m ./...",
            "source_commits": [],
            "add_only": True,
        },
        "engines": [{
            "name": "gosym",
            "path": "/verif/engine",
            "serves_properties": sorted(claimed),
            "kind_free_text": "symbolic executor over go/ssa (fork of x/tools v0.29.0 go/ssa/interp with symbolic scalars, symbolic-byte strings, symbolic-key maps, forking by re-execution) emitting SMT-LIB2 (BV+FP+UF) to z3 4.8.12 (-in, push/pop), fallback z3 5.1.0 / cvc5 1.0; native replay of models through go test -overlay",
        }],
        "checks": checks,
        "notes": "Exit codes: 0 held within bounds; 1 replay-confirmed violation not listed in known_findings.json; 2 inconclusive (engine abort, bound exceeded, solver unknown, unconfirmed model, vacuous harness). fix: commits in /repo: " + ", ".join(fixes),
        "not_applicable": [{"property_id": k, "reason": na[k]} for k in sorted(na)],
    }
    json.dump(man, open(os.path.join(V, "MANIFEST.json"), "w"), indent=1)
    print("wrote MANIFEST.json with", len(checks), "checks,", len(na), "not applicable")

if __name__ == "__main__":
    main()
