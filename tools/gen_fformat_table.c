#include <stdio.h>
#include <math.h>
int main(){
  const char* flags[]={"","-","+"," ","#","0","+0","-+","# ","0 "};
  const char* widths[]={"","8","14"};
  const char* precs[]={"",".0",".1",".3",".10"};
  const char verbs[]={'e','E','f'};
  double vals[]={0.0,-0.0,1.0,-1.0,0.5,1.5,2.5,0.125,-0.375,9.995,99.5,1e10,1e-10,123456.789,-123456.789,1e22,1e300,5e-324,0.1,1.0/3.0,2147483648.5,999999.9999999,1e15+0.5, INFINITY,-INFINITY};
  const char* valsrc[]={"0.0","math.Copysign(0,-1)","1.0","-1.0","0.5","1.5","2.5","0.125","-0.375","9.995","99.5","1e10","1e-10","123456.789","-123456.789","1e22","1e300","5e-324","0.1","1.0/3.0","2147483648.5","999999.9999999","1e15+0.5","math.Inf(1)","math.Inf(-1)"};
  int nv=sizeof(vals)/sizeof(vals[0]);
  for(int f=0;f<10;f++)for(int w=0;w<3;w++)for(int p=0;p<5;p++)for(int v=0;v<3;v++)for(int i=0;i<nv;i++){
    char fmt[32]; snprintf(fmt,sizeof fmt,"%%%s%s%s%c",flags[f],widths[w],precs[p],verbs[v]);
    char out[512]; snprintf(out,sizeof out,fmt,vals[i]);
    printf("%s\t%d\t%s\n",fmt,i,out);
  }
  return 0;
}
